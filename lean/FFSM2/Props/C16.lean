import FFSM2.Lemmas.Blind
/-!
# C16 — Logging is faithful and does not perturb the machine

Which deliveries produce a method record without verbose logging (`recorded`, Q7) mirrors the C++
overload selection on the member pointer's class; that mechanism itself is C++ truth and is tied by
the correspondence (configurations mixing states that define all / some / none of the callbacks, own
vs inherited from an injection; plain and verbose builds; attach / detach ops).
-/
namespace FFSM2
open Step

/-- **faithful, method records**: a delivery's events are its method record (iff a logger is attached
    and the delivery is `recorded`), emitted before any user code of that delivery, followed by the
    layers; so every method record is immediately followed by the delivery it names -/
theorem C16_method_record_first (env : Env) (m : Method) (sid : Nat) (cur pend : Tr) (s : St) :
    (deliver env m sid cur pend s).2 =
      (if recorded env.cfg sid m then logEv env s.core (.method sid m) else []) ++
      (seqList ((Ancestors.deep (env.cfg.injections sid) m).map (deliverLayer env m sid cur pend)) s).2 := by
  unfold deliver
  simp only [Step.seq, emit]

/-- with a logger attached: exactly one record, naming that state and method -/
theorem C16_one_record (env : Env) (hl : env.cfg.logging = true) (c : Core) (hc : c.logger = true) (r : LogRec) :
    logEv env c r = [.log env.inst r] := by simp [logEv, hl, hc]

/-- verbose logging records every delivery; otherwise exactly the `recorded` ones (Q7) — in
    particular every delivery to a state whose class defines the callback -/
theorem C16_recorded_defined (cfg : Cfg) (sid : Nat) (m : Method) (hs : sid ≠ 255 ∨ cfg.hasHead = true)
    (hd : cfg.defines sid m = true) : recorded cfg sid m = true := by
  unfold recorded
  split
  · rfl
  · have : (sid == 255 && !cfg.hasHead) = false := by
      rcases hs with h | h
      · simp [h]
      · simp [h]
    simp only [this, Bool.false_eq_true, if_false]
    split
    · rfl
    · cases m <;> simp [hd]

/-- **every changeTo/changeWith, cancellation and succeed/fail produces exactly its record**, with the
    caller as origin and the requested destination / reported state, at the moment of the action -/
theorem C16_action_records (env : Env) (sid d p : Nat) (s : St) :
    (applyAction env sid (.changeTo d) s).2 = logEv env s.core (.transition sid d) ∧
    (applyAction env sid (.changeWith d p) s).2 = logEv env s.core (.transition sid d) ∧
    (applyAction env sid .cancel s).2 = logEv env s.core (.cancelled sid) ∧
    (applyAction env sid (.succeed none) s).2 = logEv env s.core (.taskStatus sid true) ∧
    (applyAction env sid (.fail (some d)) s).2 = logEv env s.core (.taskStatus d false) ∧
    (extChange env d none s).2 = logEv env s.core (.transition 255 d) := ⟨rfl, rfl, rfl, rfl, rfl, rfl⟩

/-- **non-interference**: for every API operation body, every configuration, behaviour and state —
    erasing the logger from the state commutes with the operation, and the trace with log records
    erased is the same whether a logger is attached or not: which callbacks run, their order, every
    observation they make, every action they perform and every resulting state are unaffected -/
theorem C16_noninterference (env : Env) (d : Nat) (buf : List Nat) :
    Blind (update env) ∧ Blind (react env) ∧ Blind (query env) ∧ Blind (processRequest env) ∧
    Blind (initialEnter env) ∧ Blind (finalExit env) ∧ Blind (replayTransition env d) ∧ Blind (load env buf) :=
  ⟨blind_cycle env _ _ _, blind_cycle env _ _ _, blind_query env, blind_processRequest env,
   blind_initialEnter env, blind_finalExit env, blind_replayTransition env d, blind_load env buf⟩

/-- … including requests, task reports and plan edits made from outside -/
theorem C16_noninterference_actions (env : Env) (sid : Nat) (a : Action) : Blind (applyAction env sid a) :=
  blind_applyAction env sid a

/-- non-vacuity: the same two-op history with and without a logger: identical up to the log records -/
example :
    let cfg : Cfg := { n := 2, L := 2, cap := 1 }
    let beh : Beh := fun k => if k.method = .update then [.changeTo 1, .succeed none] else []
    nolog (run cfg beh [.construct 0 true, .update 0]).2 = nolog (run cfg beh [.construct 0 false, .update 0]).2 ∧
    (run cfg beh [.construct 0 true, .update 0]).2.length > (run cfg beh [.construct 0 false, .update 0]).2.length := by
  decide

end FFSM2
