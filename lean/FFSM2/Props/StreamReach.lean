import FFSM2.Props.C13
import FFSM2.Props.C18
/-!
# C18 — what `read<N>()` looks at

`readTouched` lists the byte indices `BitReadStreamT::read<N>()` fetches (one per loop iteration that still has bits
to deliver — the loop of the source fetches `_buffer._data[byteIndex]` at the top of the body).

* `C18_read_touches_in_range` — for a read that fits the declared capacity all of them are inside the
  `BYTE_COUNT`-byte buffer;
* `C18_read_depends_only_on_touched` — the result of the read is a function of those bytes alone: two buffers that
  agree there give the same item and cursor;
* `C18_read_ignores_beyond_buffer` — so a read within capacity never depends on anything at or beyond index
  `BYTE_COUNT` (the byte the seeded change C18f fetches when the last item ends on the last bit).
-/
namespace FFSM2
open BitStream

/-- the byte indices the loop of `read<N>` fetches -/
def readTouchedLoop : Nat → Nat → Nat → List Nat
  | 0, _, _ => []
  | fuel + 1, cursor, itemWidth =>
    if itemWidth = 0 then [] else
      (cursor >>> 3) :: readTouchedLoop fuel (cursor + min (8 - (cursor &&& 7)) itemWidth) (itemWidth - min (8 - (cursor &&& 7)) itemWidth)

def readTouched (w cursor : Nat) : List Nat := readTouchedLoop w cursor w

theorem readTouchedLoop_in_range (cap : Nat) : ∀ (fuel cursor itemWidth : Nat), cursor + itemWidth ≤ cap →
    ∀ i ∈ readTouchedLoop fuel cursor itemWidth, i < byteCount cap
  | 0, _, _, _, i, hi => by cases hi
  | fuel + 1, cursor, itemWidth, hfit, i, hi => by
    simp only [readTouchedLoop] at hi
    split at hi
    · cases hi
    · rename_i hw
      rcases List.mem_cons.mp hi with rfl | hi
      · exact C13_byteIndex_in_range hfit cursor (Nat.le_refl _) (by omega)
      · refine readTouchedLoop_in_range cap fuel _ _ ?_ i hi
        have : min (8 - (cursor &&& 7)) itemWidth ≤ itemWidth := Nat.min_le_right _ _
        omega

/-- **every byte `read<N>()` fetches lies inside the buffer** when the read fits the declared capacity -/
theorem C18_read_touches_in_range {cap cursor w : Nat} (hfit : cursor + w ≤ cap) :
    ∀ i ∈ readTouched w cursor, i < byteCount cap :=
  readTouchedLoop_in_range cap w cursor w hfit

theorem readLoop_congr (tb : Nat) (buf buf' : List Nat) : ∀ (fuel cursor item itemCursor itemWidth : Nat),
    (∀ i ∈ readTouchedLoop fuel cursor itemWidth, buf.getD i 0 = buf'.getD i 0) →
    readLoop fuel tb buf cursor item itemCursor itemWidth = readLoop fuel tb buf' cursor item itemCursor itemWidth
  | 0, _, _, _, _, _ => rfl
  | fuel + 1, cursor, item, itemCursor, itemWidth, h => by
    simp only [readLoop]
    split
    · rfl
    · rename_i hw
      have hb : buf.getD (cursor >>> 3) 0 = buf'.getD (cursor >>> 3) 0 :=
        h _ (by simp only [readTouchedLoop, hw, if_false]; exact List.mem_cons_self)
      rw [hb]
      exact readLoop_congr tb buf buf' fuel _ _ _ _ (fun i hi => h i (by
        simp only [readTouchedLoop, hw, if_false]; exact List.mem_cons_of_mem _ hi))

/-- **the read is a function of the fetched bytes alone** -/
theorem C18_read_depends_only_on_touched (w cursor : Nat) (buf buf' : List Nat)
    (h : ∀ i ∈ readTouched w cursor, buf.getD i 0 = buf'.getD i 0) : read w buf cursor = read w buf' cursor :=
  readLoop_congr (typeBits w) buf buf' w cursor 0 0 w h

/-- **nothing at or beyond `BYTE_COUNT` matters**: whatever follows the buffer in memory, a read within the
    declared capacity returns the same item -/
theorem C18_read_ignores_beyond_buffer {cap cursor w : Nat} (hfit : cursor + w ≤ cap) (buf tail tail' : List Nat)
    (hlen : buf.length = byteCount cap) : read w (buf ++ tail) cursor = read w (buf ++ tail') cursor := by
  apply C18_read_depends_only_on_touched
  intro i hi
  have hlt : i < buf.length := by rw [hlen]; exact C18_read_touches_in_range hfit i hi
  simp [List.getD_eq_getElem?_getD, List.getElem?_append_left hlt]

/-! ### `write<N>()` -/

/-- the loop of `write<N>` visits the same byte indices as the loop of `read<N>` -/
theorem writeLoop_frame : ∀ (fuel : Nat) (buf : List Nat) (cursor itemBits itemWidth j : Nat),
    j ∉ readTouchedLoop fuel cursor itemWidth →
    (writeLoop fuel buf cursor itemBits itemWidth).1.getD j 0 = buf.getD j 0
  | 0, _, _, _, _, _, _ => rfl
  | fuel + 1, buf, cursor, itemBits, itemWidth, j, hj => by
    simp only [writeLoop]
    split
    · rfl
    · rename_i hw
      simp only [readTouchedLoop, hw, if_false, List.mem_cons, not_or] at hj
      rw [writeLoop_frame fuel _ _ _ _ j hj.2]
      simp only [List.getD_eq_getElem?_getD]
      rw [List.getElem?_set_ne (Ne.symm hj.1)]

/-- **`write<N>()` changes no byte other than the ones it visits**, and for a write within the declared capacity
    those are all inside the `BYTE_COUNT`-byte buffer: nothing at or beyond `BYTE_COUNT` is ever modified -/
theorem C18_write_frame {cap cursor w : Nat} (hfit : cursor + w ≤ cap) (buf : List Nat) (item j : Nat)
    (hj : byteCount cap ≤ j) : (write w buf cursor item).1.getD j 0 = buf.getD j 0 := by
  apply writeLoop_frame
  intro hmem
  have := readTouchedLoop_in_range cap w cursor w hfit j hmem
  omega

/-- non-vacuity: a 7-bit read at bit 1 of a one-byte (8-bit) stream fetches byte 0 only — not byte 1 -/
example : readTouched 7 1 = [0] ∧ byteCount 8 = 1 := by decide

end FFSM2
