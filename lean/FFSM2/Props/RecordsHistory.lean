import FFSM2.Lemmas.Records
/-!
# C16 over whole histories: every method record names the delivery happening at that moment

`C16_history_records_faithful` — in the trace of every history (any configuration, any callback behaviour, any
sequence of API calls on any number of instances, loggers attached, detached or toggled at will) every method record
`log i (method sid m)` is immediately followed by a delivery event of instance `i`, state `sid`, method `m`: the
record is emitted before any user code of the delivery it announces, and never without one.
-/
namespace FFSM2
open Step

theorem recStep_false (p : Option (Nat × Nat × Method)) (e : Ev) : (recStep (p, false) e).2 = false := by
  cases p with
  | none => cases e with
    | log i r => cases r <;> rfl
    | _ => rfl
  | some t =>
    obtain ⟨i, sid, m⟩ := t
    cases e with
    | cb k v o => simp [recStep]
    | log i r => cases r <;> rfl
    | _ => rfl

theorem foldl_recStep_false : ∀ (es : List Ev) (p : Option (Nat × Nat × Method)), (es.foldl recStep (p, false)).2 = false
  | [], _ => rfl
  | e :: es, p => by
    rw [List.foldl_cons]
    have h := recStep_false p e
    generalize recStep (p, false) e = st at h
    obtain ⟨q, b⟩ := st
    simp only at h
    rw [h]
    exact foldl_recStep_false es q

/-- what acceptance means, in plain words -/
theorem closed_spec {es : List Ev} (h : Closed es) (pre post : List Ev) (i sid : Nat) (m : Method)
    (hs : es = pre ++ Ev.log i (.method sid m) :: post) :
    ∃ k vis o post', post = Ev.cb k vis o :: post' ∧ k.inst = i ∧ k.sid = sid ∧ k.method = m := by
  unfold Closed at h
  rw [hs, List.foldl_append, List.foldl_cons] at h
  generalize List.foldl recStep (none, true) pre = st at h
  obtain ⟨p, ok⟩ := st
  -- after the record: pending, with some verdict
  have h1 : ∃ ok', recStep (p, ok) (Ev.log i (.method sid m)) = (some (i, sid, m), ok') := by
    cases p with
    | none => exact ⟨ok, rfl⟩
    | some t => obtain ⟨a, b, c⟩ := t; exact ⟨false, rfl⟩
  obtain ⟨ok', h1⟩ := h1
  rw [h1] at h
  cases post with
  | nil => simp at h
  | cons e post' =>
    rw [List.foldl_cons] at h
    cases e with
    | cb k v o =>
      simp only [recStep] at h
      by_cases hm : (ok' && k.inst == i && k.sid == sid && k.method == m) = true
      · simp only [Bool.and_eq_true, beq_iff_eq] at hm
        exact ⟨k, v, o, post', rfl, hm.1.1.2, hm.1.2, hm.2⟩
      · have hf : (ok' && k.inst == i && k.sid == sid && k.method == m) = false := by simpa using hm
        rw [hf] at h
        have := foldl_recStep_false post' none
        rw [h] at this
        cases this
    | act k a =>
      have : recStep (some (i, sid, m), ok') (Ev.act k a) = (none, false) := rfl
      rw [this] at h
      have := foldl_recStep_false post' none
      rw [h] at this; cases this
    | log j r =>
      have : ∃ q, recStep (some (i, sid, m), ok') (Ev.log j r) = (q, false) := by cases r <;> exact ⟨_, rfl⟩
      obtain ⟨q, hq⟩ := this
      rw [hq] at h
      have := foldl_recStep_false post' q
      rw [h] at this; cases this
    | api j o n ob =>
      have : recStep (some (i, sid, m), ok') (Ev.api j o n ob) = (none, false) := rfl
      rw [this] at h
      have := foldl_recStep_false post' none
      rw [h] at this; cases this
    | rejected j o n =>
      have : recStep (some (i, sid, m), ok') (Ev.rejected j o n) = (none, false) := rfl
      rw [this] at h
      have := foldl_recStep_false post' none
      rw [h] at this; cases this

/-- **C16 over whole histories — method records are faithful.**  Wherever a method record occurs in the trace of
    any history, the very next event is a delivery to that instance and state of that method. -/
theorem C16_history_records_faithful (cfg : Cfg) (beh : Beh) (ops : List Op) (pre post : List Ev) (i sid : Nat) (m : Method)
    (hs : (run cfg beh ops).2 = pre ++ Ev.log i (.method sid m) :: post) :
    ∃ k vis o post', post = Ev.cb k vis o :: post' ∧ k.inst = i ∧ k.sid = sid ∧ k.method = m :=
  closed_spec (runFrom_closed cfg beh ops [] 0) pre post i sid m hs

/-- the same for one API call from any world -/
theorem C16_history_call_records_faithful (cfg : Cfg) (beh : Beh) (w : World) (k0 : Nat) (op : Op) (pre post : List Ev)
    (i sid : Nat) (m : Method) (hs : (stepAll cfg beh w k0 op).2 = pre ++ Ev.log i (.method sid m) :: post) :
    ∃ k vis o post', post = Ev.cb k vis o :: post' ∧ k.inst = i ∧ k.sid = sid ∧ k.method = m :=
  closed_spec (stepAll_closed cfg beh w k0 op) pre post i sid m hs

/-- non-vacuity: a logged history contains method records (here: five of them), and the automaton accepts it -/
example :
    let cfg : Cfg := { n := 2, L := 2, cap := 1, logging := true }
    let beh : Beh := fun k => if k.method = .update ∧ k.sid = 0 then [.changeTo 1] else []
    let es := (run cfg beh [.construct 0 true, .update 0]).2
    (es.filter Ev.isMethodLog).length ≥ 5 ∧ es.foldl recStep (none, true) = (none, true) := by
  decide

end FFSM2
