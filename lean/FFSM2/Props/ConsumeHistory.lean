import FFSM2.Props.C08
/-!
# C08 — a success report is consumed by the plan step that fires on it

"Plan tasks fire … only once": the report `succeed()` left for the active state is what makes its tasks fire; the
plan step that fires at least one task on it clears it — whether or not the transition the task requested is
applied afterwards (a guard may veto it) — so the next cycle does not fire the following task on the same report.

* `firePlan_consumes` — the loop plus the deferred `successesToClear` pass;
* `C08_planStep_consumes` — the plan step of a cycle: if it fires anything, the active state's success bit is
  clear afterwards;
* `C08_planStep_idle_keeps_report` — conversely, a plan step that fires nothing (no task of the active state at
  the front) leaves the report as it was: it is not lost either.
-/
namespace FFSM2
open Step

def clearAll (clr : List Nat) (l : List Bool) : List Bool := clr.foldl (fun acc o => setBit acc o false) l

theorem setBit_length (l : List Bool) (i : Nat) (v : Bool) : (setBit l i v).length = l.length := by simp [setBit]

theorem getBit_setBit_false (l : List Bool) (i j : Nat) (h : getBit l j = false) : getBit (setBit l i false) j = false := by
  unfold getBit setBit at *
  by_cases hij : i = j
  · subst hij
    by_cases hl : i < l.length
    · simp [List.getD_eq_getElem?_getD, hl]
    · have : l.length ≤ i := Nat.le_of_not_lt hl
      simp [List.getD_eq_getElem?_getD, this]
  · simp only [List.getD_eq_getElem?_getD] at h ⊢
    rw [List.getElem?_set_ne hij]; exact h

theorem clearAll_keeps_false : ∀ (clr : List Nat) (l : List Bool) (a : Nat), getBit l a = false → getBit (clearAll clr l) a = false
  | [], _, _, h => h
  | o :: os, l, a, h => by
    simp only [clearAll, List.foldl_cons]
    exact clearAll_keeps_false os _ a (getBit_setBit_false l o a h)

theorem clearAll_mem : ∀ (clr : List Nat) (l : List Bool) (a : Nat), a ∈ clr → a < l.length → getBit (clearAll clr l) a = false
  | [], _, _, h, _ => by cases h
  | o :: os, l, a, h, hl => by
    simp only [clearAll, List.foldl_cons]
    rcases List.mem_cons.mp h with rfl | h
    · exact clearAll_keeps_false os _ _ (getBit_setBit_self l _ false hl)
    · exact clearAll_mem os _ a h (by rw [setBit_length]; exact hl)

/-- the loop of `updatePlan` followed by the `successesToClear` pass: the active state's report is clear afterwards
    whenever it was clear before, a task fired, or the state was already marked for clearing -/
theorem firePlan_consumes (env : Env) : ∀ (tasks : List Task) (s : St) (clr : List Nat),
    s.core.active < s.core.succ.length →
    (getBit s.core.succ s.core.active = false ∨
     firedOf tasks s.core.active (getBit s.core.succ s.core.active) ≠ [] ∨ s.core.active ∈ clr) →
    (firePlan env tasks s clr).1.1.core.succ.length = s.core.succ.length ∧
    getBit (clearAll (firePlan env tasks s clr).1.2.2 (firePlan env tasks s clr).1.1.core.succ) s.core.active = false := by
  intro tasks
  induction tasks with
  | nil =>
    intro s clr hlen h
    simp only [firePlan, firedOf, ne_eq, not_true_eq_false, false_or] at h ⊢
    refine ⟨trivial, ?_⟩
    rcases h with h | h
    · exact clearAll_keeps_false _ _ _ h
    · exact clearAll_mem _ _ _ h hlen
  | cons t ts ih =>
    intro s clr hlen h
    simp only [firePlan, ctlIsActive]
    by_cases ho : (s.core.active == t.origin) = true
    · have ho' : t.origin = s.core.active := by simpa using (beq_iff_eq.mp ho).symm
      simp only [ho, if_true]
      by_cases hb : getBit s.core.succ t.origin = true
      · simp only [hb, if_true]
        by_cases hc : (t.origin == t.dest) = true
        · simp only [hc, if_true]
          have hlen' : s.core.active < (setBit s.core.succ t.origin false).length := by rw [setBit_length]; exact hlen
          have hbit : getBit (setBit s.core.succ t.origin false) s.core.active = false := by
            rw [← ho']; exact getBit_setBit_self _ _ _ (by rw [ho']; exact hlen)
          obtain ⟨i1, i2⟩ := ih
            { s with core := { ({ s.core with request := ⟨t.origin, t.dest, t.payload⟩ } : Core) with
                                succ := setBit s.core.succ t.origin false } } clr hlen' (Or.inl hbit)
          exact ⟨by rw [i1]; exact setBit_length _ _ _, i2⟩
        · have hc' : (t.origin == t.dest) = false := by simpa using hc
          simp only [hc', Bool.false_eq_true, if_false]
          obtain ⟨i1, i2⟩ := ih { s with core := { s.core with request := ⟨t.origin, t.dest, t.payload⟩ } } (t.origin :: clr) hlen
            (Or.inr (Or.inr (by rw [ho']; exact List.mem_cons_self)))
          exact ⟨i1, i2⟩
      · have hb0 : getBit s.core.succ t.origin = false := by simpa using hb
        simp only [hb0, Bool.false_eq_true, if_false]
        have hb' : getBit s.core.succ s.core.active = false := by rw [← ho']; exact hb0
        obtain ⟨i1, i2⟩ := ih s clr hlen (Or.inl hb')
        exact ⟨i1, i2⟩
    · have ho' : (s.core.active == t.origin) = false := by simpa using ho
      have ho'' : (t.origin == s.core.active) = false := by
        cases hx : (t.origin == s.core.active)
        · rfl
        · have := beq_iff_eq.mp hx; rw [this] at ho'; simp at ho'
      simp only [ho', Bool.false_eq_true, if_false]
      refine ⟨trivial, ?_⟩
      simp only [firedOf, ho'', Bool.false_eq_true, if_false, ne_eq, not_true_eq_false, false_or] at h
      rcases h with h | h
      · exact clearAll_keeps_false _ _ _ h
      · exact clearAll_mem _ _ _ h hlen

/-- **a success report is consumed by the plan step that fires on it** — whatever becomes of the transition the
    fired task requested -/
theorem C08_planStep_consumes (env : Env) (s : St) (hlen : s.core.active < s.core.succ.length)
    (hst : s.core.subStatus.or (stateStatus s.core) = .success) (hpe : s.core.planExists = true)
    (hf : firedOf s.core.plan s.core.active (getBit s.core.succ s.core.active) ≠ []) :
    getBit (planStep env s).1.core.succ s.core.active = false := by
  have hne : s.core.plan.isEmpty = false := by
    cases hp : s.core.plan with
    | nil => rw [hp] at hf; simp [firedOf] at hf
    | cons t ts => rfl
  unfold planStep
  simp only [hst, hpe, hne, Bool.and_true, Bool.not_false, if_true, show (Status.success != Status.none) = true from by decide]
  exact (firePlan_consumes env s.core.plan s [] hlen (Or.inr (Or.inl hf))).2

/-- … and a plan step that fires nothing leaves the report where it was -/
theorem C08_planStep_idle_keeps_report (env : Env) (s : St) (_hlen : s.core.active < s.core.succ.length)
    (hst : s.core.subStatus.or (stateStatus s.core) = .success) (hpe : s.core.planExists = true)
    (hne : s.core.plan ≠ []) (hf : ∀ t, s.core.plan.head? = some t → t.origin ≠ s.core.active) :
    (planStep env s).1.core.succ = s.core.succ ∧ (planStep env s).1.core.plan = s.core.plan := by
  cases hp : s.core.plan with
  | nil => exact absurd hp hne
  | cons t ts =>
    have ht : t.origin ≠ s.core.active := hf t (by rw [hp]; rfl)
    have ho : (s.core.active == t.origin) = false := by
      cases hx : (s.core.active == t.origin)
      · rfl
      · exact absurd (beq_iff_eq.mp hx).symm ht
    unfold planStep
    simp only [hst, hpe, hp, List.isEmpty_cons, Bool.and_true, Bool.not_false, if_true,
      show (Status.success != Status.none) = true from by decide, firePlan, ctlIsActive, ho, Bool.false_eq_true, if_false,
      List.foldl_nil]
    exact ⟨trivial, trivial⟩

/-- non-vacuity: state 1 active with a report, plan `[1→2, 1→0]`: the step fires both (the second overrides the
    first), and the report is gone -/
example :
    let env : Env := ⟨{ n := 3, L := 2, cap := 2 }, fun _ => [], 0, 0⟩
    let s : St := { core := { active := 1, succ := [false, true, false], fail := [false, false, false],
                              plan := [⟨1, 2, none⟩, ⟨1, 0, none⟩], planExists := true } }
    firedOf s.core.plan 1 true = [⟨1, 2, none⟩, ⟨1, 0, none⟩] ∧
    getBit (planStep env s).1.core.succ 1 = false ∧ (planStep env s).1.core.request = ⟨1, 0, none⟩ := by
  decide

end FFSM2
