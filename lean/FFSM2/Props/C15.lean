import FFSM2.Ancestors
/-!
# C15 — Injected base behaviours wrap the state's own callbacks in LIFO order
-/
namespace FFSM2
open Ancestors

theorem wideFwd_eq (l : List Layer) : wideFwd l = l := by
  induction l with
  | nil => rfl
  | cons x xs ih => simp [wideFwd, ih]

theorem wideRev_eq (l : List Layer) : wideRev l = l.reverse := by
  induction l with
  | nil => rfl
  | cons x xs ih => simp [wideRev, ih]

/-- **the translated call-order tables say what the property says.**  `deep` is defined from `Gen.ownFirstCodes` /
    `Gen.restFirstCodes`, which the translator reads off `S_::deepX` and `A_<First, Rest...>::wideX` on every run; this
    equation (checked by evaluation) is where a change of any of those call orders in the source stops the C15
    theorems from going through -/
theorem C15_layer_tables (k : Nat) (m : Method) : deep k m =
    (match m with
     | .entryGuard | .enter | .reenter | .preUpdate | .update | .preReact | .react => wideFwd (injections k) ++ [.own]
     | .postUpdate | .postReact | .exit => .own :: wideRev (injections k)
     | .exitGuard => wideRev (injections k) ++ [.own]
     | .query => .own :: wideFwd (injections k)
     | .planSucceeded | .planFailed => [.own]) := by
  cases m <;> rfl

/-- the methods the property lists on the "set-up" side -/
def preSide : List Method := [.entryGuard, .enter, .reenter, .preUpdate, .update, .preReact, .react]
/-- … and on the "tear-down" side -/
def postSide : List Method := [.exit, .postUpdate, .postReact]

/-- **C15 pre order**: `I1..Ik` then the state, for every `k` -/
theorem C15_pre_order (k : Nat) (m : Method) (hm : m ∈ preSide) :
    deep k m = injections k ++ [.own] := by
  simp [preSide] at hm
  rcases hm with rfl | rfl | rfl | rfl | rfl | rfl | rfl <;> simp [C15_layer_tables, wideFwd_eq]

/-- **C15 post order**: the state first, then `Ik..I1` -/
theorem C15_post_order (k : Nat) (m : Method) (hm : m ∈ postSide) :
    deep k m = .own :: (injections k).reverse := by
  simp [postSide] at hm
  rcases hm with rfl | rfl | rfl <;> simp [C15_layer_tables, wideRev_eq]

/-- **C15 nesting**: tear-down order is the exact reverse of set-up order -/
theorem C15_nesting (k : Nat) (m m' : Method) (hm : m ∈ preSide) (hm' : m' ∈ postSide) :
    deep k m' = (deep k m).reverse := by
  rw [C15_pre_order k m hm, C15_post_order k m' hm']; simp

theorem injections_nodup (k : Nat) : (injections k).Nodup := by
  unfold injections
  have h := List.nodup_range (n := k)
  rw [List.nodup_iff_pairwise_ne] at h ⊢
  exact List.Pairwise.map _ (fun a b hab e => hab (by cases e; rfl)) h

theorem nodup_reverse' {α : Type} {l : List α} (h : l.Nodup) : l.reverse.Nodup := by
  rw [List.nodup_iff_pairwise_ne] at h ⊢
  rw [List.pairwise_reverse]
  exact h.imp (fun hab e => hab e.symm)

theorem own_not_mem_injections (k : Nat) : Layer.own ∉ injections k := by
  simp [injections]

/-- **C15 exactly once**: every injection's callback and the state's own callback run exactly
    once per delivery (for every method that has a wide form) -/
theorem C15_exactly_once (k : Nat) (m : Method) (hm : m ∈ preSide ∨ m ∈ postSide) :
    (deep k m).Nodup ∧ (∀ i, i < k → Layer.inj i ∈ deep k m) ∧ Layer.own ∈ deep k m ∧
    (deep k m).length = k + 1 := by
  have hmem : ∀ i, i < k → Layer.inj i ∈ injections k := by
    intro i hi; simp [injections]; exact hi
  have hlen : (injections k).length = k := by simp [injections]
  rcases hm with hm | hm
  · rw [C15_pre_order k m hm]
    refine ⟨?_, fun i hi => by simp [hmem i hi], by simp, by simp [hlen]⟩
    rw [List.nodup_append]
    exact ⟨injections_nodup k, by simp, by
      intro a ha b hb; simp at hb; subst hb; intro e; subst e; exact own_not_mem_injections k ha⟩
  · rw [C15_post_order k m hm]
    refine ⟨?_, fun i hi => by simp [hmem i hi], by simp, by simp [hlen]⟩
    rw [List.nodup_cons]
    exact ⟨by simp [own_not_mem_injections], nodup_reverse' (injections_nodup k)⟩

/-- methods outside the property's two lists, recorded as the code has them -/
theorem C15_exitGuard_order (k : Nat) : deep k .exitGuard = (injections k).reverse ++ [.own] := by
  simp [C15_layer_tables, wideRev_eq]
theorem C15_query_order (k : Nat) : deep k .query = .own :: injections k := by
  simp [C15_layer_tables, wideFwd_eq]

/-- non-vacuity: three injections -/
example : deep 3 .enter = [.inj 0, .inj 1, .inj 2, .own] ∧ deep 3 .exit = [.own, .inj 2, .inj 1, .inj 0] := by
  decide

end FFSM2
