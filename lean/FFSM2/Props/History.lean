import FFSM2.Lemmas.Reach
import FFSM2.Props.C17
import FFSM2.Lemmas.BlindWorld
import FFSM2.Lemmas.GuardCount
import FFSM2.Props.C04
import FFSM2.Props.C09
import FFSM2.Lemmas.SilentGen
import FFSM2.Lemmas.NoPlan
import FFSM2.Lemmas.PrevInv
import FFSM2.Props.C11
import FFSM2.Lemmas.ProvWorld
import FFSM2.Lemmas.CancelTrack
import FFSM2.Lemmas.Relabel
import FFSM2.Props.C03
/-!
# Run-level theorems: the per-call theorems lifted to every history

`run cfg beh ops` is the whole life of a world of machines: any number of instances, any interleaving
of API calls on them (`ops` arbitrary, including out-of-contract calls, which are rejected), any callback
behaviour `beh`.  The theorems here quantify over all of that.

* `C01_history` — per instance, the lifecycle callbacks delivered over the *entire* history form one
  correctly paired path from "inactive" to whatever the instance is at the end.
* `C01_history_one_active` — at every API boundary of every history the active id is a real state or
  "none", and `isActive` is one-hot at it.
* `C10_history_capacity` — in every reachable state the plan is within the configured capacity and every
  task names real states.
* `C17_history_independent` — a call on one instance never changes, nor emits an event of, another.
* `C16_history_noninterference` — the whole history with every logger omitted runs the same callbacks, in
  the same order, with the same observations, actions, API results and final states.
-/
namespace FFSM2
open Step

/-- the active id of a slot (255: no machine there, or an inactive one) -/
def actOf : Option Core → Nat
  | none => 255
  | some c => c.active

/-- lifecycle signature of the events that belong to instance `i` -/
def sigOf (i : Nat) (es : List Ev) : List (Method × Nat) := sig (es.filter (fun e => e.inst == i))

theorem sigOf_append (i : Nat) (a b : List Ev) : sigOf i (a ++ b) = sigOf i a ++ sigOf i b := by
  simp [sigOf, List.filter_append]

theorem sigOf_own {i : Nat} {es : List Ev} (h : ∀ e ∈ es, e.inst = i) : sigOf i es = sig es := by
  unfold sigOf
  rw [List.filter_eq_self.mpr]
  intro e he
  simp [h e he]

theorem sigOf_other {i j : Nat} {es : List Ev} (h : ∀ e ∈ es, e.inst = j) (hij : i ≠ j) : sigOf i es = [] := by
  unfold sigOf
  rw [List.filter_eq_nil_iff.mpr]
  · rfl
  · intro e he
    simp only [beq_iff_eq]
    rw [h e he]
    exact fun e' => hij e'.symm

theorem sig_logEv (env : Env) (c : Core) (r : LogRec) : sig (logEv env c r) = [] := by
  unfold logEv; split <;> rfl

theorem sig_api (i k : Nat) (name : String) (o : ApiObs) : sig [Ev.api i k name o] = [] := rfl
theorem sig_rejected (i k : Nat) (name : String) : sig [Ev.rejected i k name] = [] := rfl

/-- under automatic activation every existing machine is active -/
def AutoActive (cfg : Cfg) (w : World) : Prop := cfg.manual = false → ∀ i c, w.get i = some c → c.active ≠ 255

theorem id_ne_255 {cfg : Cfg} (hwf : cfg.WF) {d : Nat} (hd : d < cfg.n) : d ≠ 255 := by
  have := hwf.n_le; omega

/-- activation from an inactive core: root `enter`, then `enter` of exactly one real state -/
theorem initialEnter_life (env : Env) (c : Core) (hc : c.active = 255) :
    LifePath c.active (sig (initialEnter env { core := c }).2) (initialEnter env { core := c }).1.core.active ∧
    (initialEnter env { core := c }).1.core.active ≠ 255 := by
  obtain ⟨d, h1, h2, h3⟩ := C01_initialEnter env { core := c }
  have hd : d ≠ 255 := by
    rcases h3 with rfl | ⟨r, hr, _, rfl⟩
    · decide
    · have := substRounds_pending_valid _ _ _ _ r hr
      simpa [Tr.valid] using this
  rw [h1, h2, hc]
  exact ⟨LifePath.activate hd (LifePath.nil _), hd⟩

theorem query_quiet (env : Env) (s : St) : sig (query env s).2 = [] ∧ (query env s).1.core.active = s.core.active := by
  have hq : NoLife (query env) := by
    unfold query
    generalize headFirst Method.query = hfq
    cases hfq <;> simp only [if_true, if_false, Bool.false_eq_true] <;>
    exact silent_dep fun s0 => Silent.seq (noLife_deliver env .query rfl _ {} {}) (noLife_deliver env .query rfl _ {} {})
  have hs : Stable (query env) := by
    unfold query
    generalize headFirst Method.query = hfq
    cases hfq <;> simp only [if_true, if_false, Bool.false_eq_true] <;>
    exact stable_dep fun s0 => Stable.seq (stable_deliver env _ _ _ _) (stable_deliver env _ _ _ _)
  exact ⟨sig_of_noLife hq s, (hs s).1⟩

/-- `load` of a saved well-formed source: the lifecycle it runs, for every combination of
    active / inactive receiver and source -/
theorem load_life (env : Env) (hwf : env.cfg.WF) (c sc : Core) (hsc : CoreOk env.cfg sc)
    (hm : env.cfg.manual = true ∨ (c.active ≠ 255 ∧ sc.active ≠ 255)) :
    LifePath c.active (sig (load env (save env.cfg sc) { core := c }).2) (load env (save env.cfg sc) { core := c }).1.core.active ∧
    (env.cfg.manual = false → (load env (save env.cfg sc) { core := c }).1.core.active ≠ 255) := by
  rcases hsc.active with ha | ha
  · have hne : sc.active ≠ 255 := id_ne_255 hwf ha
    by_cases hc : c.active = 255
    · -- manual activation by load
      have hman : env.cfg.manual = true := by
        rcases hm with hm | ⟨h1, _⟩
        · exact hm
        · exact absurd hc h1
      obtain ⟨d1, d2⟩ := load_decode_active env.cfg hwf sc ha
      have he : load env (save env.cfg sc) { core := c } =
          (modifyCore (fun c => { c with requested := sc.active }) ⋙ deepEnter env {}) { core := c } := by
        unfold load
        simp [d1, d2, hc, hman]
      rw [he]
      have hs := deepEnter_spec env {} { core := { c with requested := sc.active } }
      simp only [Step.seq, modifyCore, List.nil_append]
      refine ⟨?_, fun h => by rw [hman] at h; cases h⟩
      rw [hs.1, hs.2.2, hc]
      exact LifePath.activate hne (LifePath.nil _)
    · have h1 := C12_load_lifecycle env hwf sc ha { core := c } hc
      have h2 := (C12_roundtrip_active env hwf sc ha { core := c } (Or.inl hc)).1
      rw [h1, h2]
      refine ⟨?_, fun _ => hne⟩
      split
      · exact LifePath.change hc hne (LifePath.nil _)
      · rename_i h
        have : sc.active = c.active := by simpa using h
        rw [this]
        exact LifePath.reenter hc (LifePath.nil _)
  · have hman : env.cfg.manual = true := by
      rcases hm with hm | ⟨_, h2⟩
      · exact hm
      · exact absurd ha h2
    have d := load_decode_inactive env.cfg hwf sc hman ha
    refine ⟨?_, fun h => by rw [hman] at h; cases h⟩
    by_cases hc : c.active = 255
    · have he : load env (save env.cfg sc) { core := c } = ({ core := c }, []) := by
        unfold load; simp [d, hc, hman]
      rw [he]; exact LifePath.nil _
    · have he : load env (save env.cfg sc) { core := c } = finalExit env { core := c } := by
        unfold load; simp [d, hc, hman]
      rw [he]
      obtain ⟨f1, f2⟩ := C01_finalExit env { core := c }
      rw [f1, f2]
      exact LifePath.deactivate hc (LifePath.nil _)

/-- every accepted API call runs a correctly paired piece of lifecycle, from the core's active state to
    its new active state; under automatic activation the machine is active afterwards -/
theorem apiStep_life {w : World} {env : Env} (hwf : env.cfg.WF) (hw : WorldOk env.cfg w) {tag : ApiTag} {slot : Option Core} {c : Core} {f : Step}
    (h : ApiStep env.cfg w env tag slot c f) (hauto : env.cfg.manual = false → ∀ c0, slot = some c0 → c0.active ≠ 255) :
    actOf slot = c.active ∧
    LifePath c.active (sig (f { core := c }).2) (f { core := c }).1.core.active ∧
    (env.cfg.manual = false → (f { core := c }).1.core.active ≠ 255) := by
  cases h with
  | constructManual lg hm => exact ⟨rfl, LifePath.nil _, fun h => by rw [hm] at h; cases h⟩
  | constructAuto lg hm =>
    obtain ⟨h1, h2⟩ := initialEnter_life env (initCore env.cfg lg) rfl
    exact ⟨rfl, h1, fun _ => h2⟩
  | enter c hm ha hv =>
    obtain ⟨h1, h2⟩ := initialEnter_life env c ha
    exact ⟨rfl, h1, fun _ => h2⟩
  | exit c hm ha =>
    obtain ⟨f1, f2⟩ := C01_finalExit env { core := c }
    refine ⟨rfl, ?_, fun h => by rw [hm] at h; cases h⟩
    rw [f1, f2]
    exact LifePath.deactivate ha (LifePath.nil _)
  | update c ha =>
    obtain ⟨h1, h2⟩ := C01_cycle env .preUpdate .update .postUpdate rfl rfl rfl { core := c } ha
    exact ⟨rfl, h1, fun _ => h2⟩
  | react c ha =>
    obtain ⟨h1, h2⟩ := C01_cycle env .preReact .react .postReact rfl rfl rfl { core := c } ha
    exact ⟨rfl, h1, fun _ => h2⟩
  | query c ha =>
    obtain ⟨h1, h2⟩ := query_quiet env { core := c }
    rw [h1, h2]
    exact ⟨rfl, LifePath.nil _, fun _ => ha⟩
  | change c d p ha hd =>
    refine ⟨rfl, ?_, fun _ => ha⟩
    show LifePath c.active (sig (logEv env c (.transition 255 d))) c.active
    rw [sig_logEv]; exact LifePath.nil _
  | immediate c d p ha hd =>
    have hp := C01_processRequest env (extChange env d p { core := c }).1 ha
    refine ⟨rfl, ?_, fun _ => hp.2⟩
    rw [sig_seq]
    show LifePath c.active (sig (logEv env c (.transition 255 d)) ++ _) _
    rw [sig_logEv, List.nil_append]
    exact hp.1
  | status c id ok =>
    have ha : (extStatus env id ok { core := c }).1.core.active = c.active := by cases ok <;> rfl
    have hs : sig (extStatus env id ok { core := c }).2 = [] := sig_logEv _ _ _
    rw [ha, hs]
    exact ⟨rfl, LifePath.nil _, fun hm => hauto hm _ rfl⟩
  | planAppend c o d p hp =>
    have ha := (stable_applyAction env 255 (.planAppend o d p) { core := c }).1
    have hs := sig_of_noLife (silent_applyAction methodPred_isLife env 255 (.planAppend o d p)) { core := c }
    rw [ha, hs]
    exact ⟨rfl, LifePath.nil _, fun hm => hauto hm _ rfl⟩
  | planEdit c a _ hp =>
    have ha := (stable_applyAction env 255 a { core := c }).1
    have hs := sig_of_noLife (silent_applyAction methodPred_isLife env 255 a) { core := c }
    rw [ha, hs]
    exact ⟨rfl, LifePath.nil _, fun hm => hauto hm _ rfl⟩
  | load c sc src hsrc hm =>
    obtain ⟨h1, h2⟩ := load_life env hwf c sc (hw src sc hsrc) hm
    exact ⟨rfl, h1, h2⟩
  | replayEnter c d _ hm ha hd =>
    have hne : (255 : Nat) ≠ d := fun e => id_ne_255 hwf hd e.symm
    have hs := deepEnter_spec env {} { core := { (applyRequest {} d c).1 with prev := ⟨255, d, none⟩ } }
    have hreq : ({ (applyRequest {} d c).1 with prev := ⟨255, d, none⟩ } : Core).requested = d := by
      simp [applyRequest, Tr.ne, hne]
    refine ⟨rfl, ?_, fun h => by rw [hm] at h; cases h⟩
    unfold replayEnter
    simp only [Step.seq, modifyCore, List.nil_append, List.append_nil]
    rw [hs.1, hs.2.2, hreq, ha]
    exact LifePath.activate (id_ne_255 hwf hd) (LifePath.nil _)
  | replayClear c _ ha => exact ⟨rfl, LifePath.nil _, fun _ => ha⟩
  | replayTransition c d _ ha hd =>
    obtain ⟨h1, h2⟩ := C01_replayTransition env d (id_ne_255 hwf hd) { core := c } ha
    rw [h2]
    exact ⟨rfl, h1, fun _ => id_ne_255 hwf hd⟩
  | attachLogger c on => exact ⟨rfl, LifePath.nil _, fun hm => hauto hm c rfl⟩

theorem autoActive_nil (cfg : Cfg) : AutoActive cfg [] := by
  intro _ i c h; simp [World.get] at h

theorem autoActive_put {cfg : Cfg} {w : World} (ha : AutoActive cfg w) (i : Nat) (c : Option Core)
    (hc : cfg.manual = false → ∀ c0, c = some c0 → c0.active ≠ 255) : AutoActive cfg (w.put i c) := by
  intro hm j cj hj
  by_cases e : j = i
  · subst e
    rw [World.get_put_same] at hj
    exact hc hm cj hj
  · rw [World.get_put_ne _ _ _ _ e] at hj
    exact ha hm j cj hj

/-- one API call on instance `op.inst`, any world: the call's lifecycle is a correctly paired path from
    the instance's active state before to its active state after — unless the call creates the instance as
    a copy (it then starts where the original is, C17) or destroys a manually activated machine that was
    never exited (the library runs nothing there) -/
theorem C01_stepAll (cfg : Cfg) (hwf : cfg.WF) (beh : Beh) (w : World) (k : Nat) (op : Op)
    (hw : WorldOk cfg w) (ha : AutoActive cfg w)
    (hcopy : ∀ src, op ≠ .copy op.inst src) (hdes : cfg.manual = true → op ≠ .destroy op.inst) :
    LifePath (actOf (w.get op.inst)) (sig (stepAll cfg beh w k op).2) (actOf ((stepAll cfg beh w k op).1.get op.inst)) := by
  have h := stepAll_shape cfg beh w k op
  generalize stepAll cfg beh w k op = r at h
  cases h with
  | copy src sc hop h1 h2 => exact absurd hop (hcopy src)
  | step op' hs hd =>
    cases hs with
    | rejected name => exact LifePath.nil _
    | call tag slot c f ret name htag hget hf =>
      obtain ⟨e1, e2, _⟩ := apiStep_life (env := ⟨cfg, beh, op.inst, k⟩) hwf hw hf
        (fun hm c0 e => ha hm _ c0 (by rw [hget, e]))
      rw [onCore_fst, onCore_snd, World.get_put_same, sig_append, sig_api, List.append_nil, hget, e1]
      exact e2
    | destroyManual c name hop hm hget =>
      rcases hd with rfl | hd
      · exact absurd hop (hdes hm)
      · exact absurd hop (hd.1 _)
    | destroyAuto c name _ hm hget =>
      obtain ⟨f1, f2⟩ := C01_finalExit ⟨cfg, beh, op.inst, k⟩ { core := c }
      rw [World.get_put_same, sig_append, sig_api, List.append_nil, hget, f2]
      exact LifePath.deactivate (ha hm _ c hget) (LifePath.nil _)
    | save c name o hget => exact LifePath.nil _

/-- automatic activation: after any call every existing machine is (still) active -/
theorem stepAll_autoActive (cfg : Cfg) (hwf : cfg.WF) (beh : Beh) (w : World) (k : Nat) (op : Op)
    (hw : WorldOk cfg w) (ha : AutoActive cfg w) : AutoActive cfg (stepAll cfg beh w k op).1 := by
  have h := stepAll_shape cfg beh w k op
  generalize stepAll cfg beh w k op = r at h
  cases h with
  | copy src sc hop h1 h2 => exact autoActive_put ha _ _ (fun hm c0 e => by cases e; exact ha hm src sc h2)
  | step op' hs hd =>
    cases hs with
    | rejected name => exact ha
    | call tag slot c f ret name htag hget hf =>
      obtain ⟨_, _, e3⟩ := apiStep_life (env := ⟨cfg, beh, op.inst, k⟩) hwf hw hf
        (fun hm c0 e => ha hm _ c0 (by rw [hget, e]))
      rw [onCore_fst]
      exact autoActive_put ha _ _ (fun hm c0 e => by cases e; exact e3 hm)
    | destroyManual c name hop hm hget => exact autoActive_put ha _ _ (fun _ c0 e => by cases e)
    | destroyAuto c name _ hm hget => exact autoActive_put ha _ _ (fun _ c0 e => by cases e)
    | save c name o hget => exact ha

/-- the lifted statement, from any reachable world -/
theorem C01_runFrom (cfg : Cfg) (hwf : cfg.WF) (beh : Beh) (i : Nat) : ∀ (ops : List Op) (w : World) (k : Nat),
    WorldOk cfg w → AutoActive cfg w →
    (∀ src, Op.copy i src ∉ ops) → (cfg.manual = true → Op.destroy i ∉ ops) →
    LifePath (actOf (w.get i)) (sigOf i (runFrom cfg beh w k ops).2) (actOf ((runFrom cfg beh w k ops).1.get i))
  | [], w, _, _, _, _, _ => LifePath.nil _
  | op :: ops, w, k, hw, ha, hcopy, hdes => by
    have hw' := stepAll_worldOk cfg hwf beh w k op hw
    have ha' := stepAll_autoActive cfg hwf beh w k op hw ha
    have ih := C01_runFrom cfg hwf beh i ops (stepAll cfg beh w k op).1 (k + 1) hw' ha'
      (fun src h => hcopy src (List.mem_cons_of_mem _ h)) (fun hm h => hdes hm (List.mem_cons_of_mem _ h))
    have hev := stepAll_events_inst cfg beh w k op
    show LifePath _ (sigOf i ((stepAll cfg beh w k op).2 ++ _)) _
    rw [sigOf_append]
    by_cases hi : op.inst = i
    · subst hi
      rw [sigOf_own hev]
      refine LifePath.append (C01_stepAll cfg hwf beh w k op hw ha ?_ ?_) ih
      · intro src e; exact hcopy src (by rw [← e]; simp)
      · intro hm e; exact hdes hm (by rw [← e]; simp)
    · rw [sigOf_other hev (fun e => hi e.symm), List.nil_append]
      rw [stepAll_other cfg beh w k op i (fun e => hi e.symm)] at ih
      exact ih

/-- **C01 over whole histories.**  For every configuration, every callback behaviour and every sequence of
    API calls on any number of instances: the `enter` / `exit` / `reenter` callbacks delivered to instance
    `i` over the entire history form one correctly paired path that starts from "no state active" and ends
    at the instance's current active state (255 if it is inactive or gone) — every `enter(X)` is matched by
    `exit(X)` before any other `enter`, `reenter(X)` only occurs while `X` is the entered state, root
    enter/exit bracket each activation.  (The two exclusions are the calls that by design run no callback:
    creating `i` as a copy, and destroying a manually activated machine.) -/
theorem C01_history (cfg : Cfg) (hwf : cfg.WF) (beh : Beh) (ops : List Op) (i : Nat)
    (hcopy : ∀ src, Op.copy i src ∉ ops) (hdes : cfg.manual = true → Op.destroy i ∉ ops) :
    LifePath 255 (sigOf i (run cfg beh ops).2) (actOf ((run cfg beh ops).1.get i)) :=
  C01_runFrom cfg hwf beh i ops [] 0 (worldOk_nil cfg) (autoActive_nil cfg) hcopy hdes

/-- **exactly one state is active, at every API boundary of every history**: the active id of every
    existing instance is a real state or "none", `isActive` is one-hot at it, and under automatic
    activation it is never "none" -/
theorem C01_history_one_active (cfg : Cfg) (hwf : cfg.WF) (beh : Beh) (ops : List Op) (i : Nat) (c : Core)
    (h : (run cfg beh ops).1.get i = some c) :
    (c.active < cfg.n ∨ c.active = 255) ∧
    (∀ j, j < cfg.n → (apiObs cfg c).isActive.getD j false = decide (c.active = j)) ∧
    (cfg.manual = false → c.active < cfg.n) := by
  have hok := run_worldOk cfg hwf beh ops i c h
  refine ⟨hok.active, (C01_active_observation cfg c hok.active hwf.n_le).2.1, fun hm => ?_⟩
  have hauto : AutoActive cfg (run cfg beh ops).1 := by
    have : ∀ (ops : List Op) (w : World) (k : Nat), WorldOk cfg w → AutoActive cfg w → AutoActive cfg (runFrom cfg beh w k ops).1 := by
      intro ops
      induction ops with
      | nil => intro w k _ ha; exact ha
      | cons op ops ih =>
        intro w k hw ha
        exact ih _ _ (stepAll_worldOk cfg hwf beh w k op hw) (stepAll_autoActive cfg hwf beh w k op hw ha)
    exact this ops [] 0 (worldOk_nil cfg) (autoActive_nil cfg)
  rcases hok.active with h1 | h1
  · exact h1
  · exact absurd h1 (hauto hm i c h)

/-- **C10 over whole histories**: in every state any history can reach, the plan holds at most the
    configured number of tasks and every task names real states -/
theorem C10_history_capacity (cfg : Cfg) (hwf : cfg.WF) (beh : Beh) (ops : List Op) (i : Nat) (c : Core)
    (h : (run cfg beh ops).1.get i = some c) :
    c.plan.length ≤ cfg.cap ∧ ∀ t ∈ c.plan, t.origin < cfg.n ∧ t.dest < cfg.n :=
  ⟨(run_worldOk cfg hwf beh ops i c h).planLen, (run_worldOk cfg hwf beh ops i c h).plan⟩

/-- **C17 over whole histories — instances are independent**: an API call made on one instance leaves
    every other instance's state exactly as it was and every event it produces belongs to the instance it
    was made on; so what a copy does after the copy was taken can never reach back into the original -/
theorem C17_history_independent (cfg : Cfg) (beh : Beh) (w : World) (k : Nat) (op : Op) (j : Nat) (hj : j ≠ op.inst) :
    (stepAll cfg beh w k op).1.get j = w.get j ∧ sigOf j (stepAll cfg beh w k op).2 = [] ∧
    (stepAll cfg beh w k op).2.filter (fun e => e.inst == j) = [] := by
  have hev := stepAll_events_inst cfg beh w k op
  refine ⟨stepAll_other cfg beh w k op j hj, sigOf_other hev hj, ?_⟩
  rw [List.filter_eq_nil_iff]
  intro e he
  simp only [beq_iff_eq]
  rw [hev e he]
  exact fun e' => hj e'.symm

/-- **C16 over whole histories — logging never perturbs the machine.**  Take any history and the same
    history in which no logger is ever attached (`construct … false`, every `attachLogger` turned into a
    detach).  With the log records erased the two traces are identical — the same callbacks are delivered in
    the same order with the same observations, user code performs the same actions, every API call returns
    the same observation — and the final worlds are equal up to the `logger` flag itself. -/
theorem C16_history_noninterference (cfg : Cfg) (beh : Beh) (ops : List Op) :
    nolog (run cfg beh (ops.map Op.quiet)).2 = nolog (run cfg beh ops).2 ∧
    (run cfg beh (ops.map Op.quiet)).1 = stripW (run cfg beh ops).1 := by
  obtain ⟨h1, h2⟩ := runFrom_strip cfg beh ops [] 0
  exact ⟨h2, h1⟩

/-- … in particular a logger attached or detached *midway* changes nothing from then on either: two
    histories that differ only in their logger flags agree up to log records -/
theorem C16_history_logger_flags_irrelevant (cfg : Cfg) (beh : Beh) (ops ops' : List Op)
    (h : ops.map Op.quiet = ops'.map Op.quiet) :
    nolog (run cfg beh ops).2 = nolog (run cfg beh ops').2 ∧ stripW (run cfg beh ops).1 = stripW (run cfg beh ops').1 := by
  obtain ⟨a1, a2⟩ := C16_history_noninterference cfg beh ops
  obtain ⟨b1, b2⟩ := C16_history_noninterference cfg beh ops'
  rw [h] at a1 a2
  exact ⟨a1.symm.trans b1, a2.symm.trans b2⟩

/-! ### C04 on the event level: how often guards run within one API call -/

theorem noGuard_applySurvivor (env : Env) (cur : Tr) : NoGuard (applySurvivor env cur) := by
  unfold applySurvivor
  intro s
  dsimp only
  split
  · exact (Silent.seq (silent_modifyCore _ _) (noGuard_changeToRequested env cur)) s
  · rfl

/-- request processing delivers `exitGuard` exactly once per evaluated round and `entryGuard` at most once -/
theorem processRequest_guard_counts (env : Env) (s : St) :
    countM .exitGuard (guardSig (processRequest env s).2) = (processRounds env s).length ∧
    countM .entryGuard (guardSig (processRequest env s).2) ≤ (processRounds env s).length := by
  unfold processRequest processRounds
  dsimp only
  split
  · have h := substLoop_guard_counts (guardRound env) 1 1 (guardRound_counts env) (substFuel env.cfg.L) {} s
    have h2 : guardSig ((applySurvivor env (substLoop (guardRound env) (substFuel env.cfg.L) {} s).1.2 ⋙
        finishProcessing env (substLoop (guardRound env) (substFuel env.cfg.L) {} s).1.2)
        (substLoop (guardRound env) (substFuel env.cfg.L) {} s).1.1).2 = [] :=
      guardSig_step_of_noGuard (Silent.seq (noGuard_applySurvivor env _) (silent_modifyCore _ _)) _
    rw [guardSig_append, h2, List.append_nil]
    simpa using h
  · exact ⟨by simp [finishProcessing, modifyCore, countM], by simp [finishProcessing, modifyCore, countM]⟩

theorem initialEnter_guard_counts (env : Env) (hL : env.cfg.L ≤ 255) (s : St) :
    countM .exitGuard (guardSig (initialEnter env s).2) = 0 ∧
    countM .entryGuard (guardSig (initialEnter env s).2) ≤ 2 * (env.cfg.L + 1) := by
  unfold initialEnter
  dsimp only
  generalize hs0 : ({ s with core := (applyRequest {} 0 s.core).1 } : St) = s0
  have h0 := entryGuardRound_counts env {} {} s0
  have h1 := substLoop_guard_counts (entryGuardRound env) 0 2 (entryGuardRound_counts env) (substFuel env.cfg.L) {}
    (entryGuardRound env {} {} s0).1
  have hlen := C04_activation_bound env hL {} (entryGuardRound env {} {} s0).1
  have h2 : guardSig (enterSurvivor env (substLoop (entryGuardRound env) (substFuel env.cfg.L) {} (entryGuardRound env {} {} s0).1).1.2
      (substLoop (entryGuardRound env) (substFuel env.cfg.L) {} (entryGuardRound env {} {} s0).1).1.1).2 = [] := by
    apply guardSig_step_of_noGuard
    unfold enterSurvivor
    exact Silent.seq (Silent.seq (silent_modifyCore _ _) (noGuard_deepEnter env _)) (silent_modifyCore _ _)
  rw [guardSig_append, guardSig_append, h2, List.append_nil, countM_append, countM_append]
  refine ⟨by rw [h0.1, h1.1]; simp, ?_⟩
  have := h0.2
  have := h1.2
  omega

/-- every accepted API call: at most `L` exit-guard evaluations and at most `2·(L+1)` entry-guard
    evaluations (activation evaluates the root's and one state's entry guard per round, one round more
    than the substitution limit; every other call at most `L`) -/
theorem apiStep_guard_bound {w : World} {env : Env} (hL : env.cfg.L ≤ 255) {tag : ApiTag} {slot : Option Core} {c : Core} {f : Step}
    (h : ApiStep env.cfg w env tag slot c f) :
    countM .exitGuard (guardSig (f { core := c }).2) ≤ env.cfg.L ∧
    countM .entryGuard (guardSig (f { core := c }).2) ≤ 2 * (env.cfg.L + 1) := by
  have quiet : ∀ {g : Step}, NoGuard g → countM .exitGuard (guardSig (g { core := c }).2) ≤ env.cfg.L ∧
      countM .entryGuard (guardSig (g { core := c }).2) ≤ 2 * (env.cfg.L + 1) := by
    intro g hg
    rw [guardSig_step_of_noGuard hg]
    exact ⟨Nat.zero_le _, Nat.zero_le _⟩
  have proc : ∀ s : St, countM .exitGuard (guardSig (processRequest env s).2) ≤ env.cfg.L ∧
      countM .entryGuard (guardSig (processRequest env s).2) ≤ 2 * (env.cfg.L + 1) := by
    intro s
    obtain ⟨p1, p2⟩ := processRequest_guard_counts env s
    have := C04_round_bound env hL s
    exact ⟨by omega, by omega⟩
  have cyc : ∀ pre mid post : Method, pre.isGuard = false → mid.isGuard = false → post.isGuard = false →
      countM .exitGuard (guardSig (cycle env pre mid post { core := c }).2) ≤ env.cfg.L ∧
      countM .entryGuard (guardSig (cycle env pre mid post { core := c }).2) ≤ 2 * (env.cfg.L + 1) := by
    intro pre mid post h1 h2 h3
    have hq : NoGuard (prelude env pre mid post) := by
      apply silent_prelude methodPred_isGuard
      intro m hm
      rcases hm with rfl | rfl | rfl | rfl | rfl
      · exact guard_excludes h1
      · exact guard_excludes h2
      · exact guard_excludes h3
      · exact guard_excludes rfl
      · exact guard_excludes rfl
    rw [cycle_eq, guardSig_seq, guardSig_step_of_noGuard hq, List.nil_append]
    exact proc _
  cases h with
  | constructManual => exact quiet (silent_skip _)
  | constructAuto lg hm =>
    obtain ⟨a, b⟩ := initialEnter_guard_counts env hL { core := initCore env.cfg lg }
    exact ⟨by omega, b⟩
  | enter c hm ha hv =>
    obtain ⟨a, b⟩ := initialEnter_guard_counts env hL { core := c }
    exact ⟨by omega, b⟩
  | exit => exact quiet (noGuard_finalExit env)
  | update => exact cyc _ _ _ rfl rfl rfl
  | react => exact cyc _ _ _ rfl rfl rfl
  | query =>
    refine quiet ?_
    unfold query
    generalize headFirst Method.query = hfq
    cases hfq <;> simp only [if_true, if_false, Bool.false_eq_true] <;>
    exact silent_dep fun s0 => Silent.seq (noGuard_deliver env .query rfl _ {} {}) (noGuard_deliver env .query rfl _ {} {})
  | change c d p =>
    refine quiet ?_
    intro s
    show (logEv env s.core _).filter Ev.isGuard = []
    exact filter_logEv methodPred_isGuard env _ _
  | immediate c d p =>
    rw [guardSig_seq]
    have : guardSig (extChange env d p { core := c }).2 = [] :=
      guardSig_of_noGuard (filter_logEv methodPred_isGuard env _ _)
    rw [this, List.nil_append]
    exact proc _
  | status c id ok =>
    refine quiet ?_
    intro s
    show (logEv env s.core _).filter Ev.isGuard = []
    exact filter_logEv methodPred_isGuard env _ _
  | planAppend c o d p hp => exact quiet (silent_applyAction methodPred_isGuard env 255 _)
  | planEdit c a _ hp => exact quiet (silent_applyAction methodPred_isGuard env 255 a)
  | load => exact quiet (noGuard_load env _)
  | replayEnter => exact quiet (noGuard_replayEnter env _)
  | replayClear => exact quiet (silent_modifyCore _ _)
  | replayTransition => exact quiet (noGuard_replayTransition env _)
  | attachLogger => exact quiet (silent_modifyCore _ _)

/-- **C04 over whole histories, on what user code observes.**  In every API call of every history, from any
    world (in particular every reachable one), whatever the guards do: the own `exitGuard` of a state is
    evaluated at most `SUBSTITUTION_LIMIT` times and own `entryGuard`s at most `2·(SUBSTITUTION_LIMIT+1)`
    times (root + state, activation included) — the call returns after a bounded number of guard rounds. -/
theorem C04_history_guard_bound (cfg : Cfg) (hL : cfg.L ≤ 255) (beh : Beh) (w : World) (k : Nat) (op : Op) :
    countM .exitGuard (guardSig (stepAll cfg beh w k op).2) ≤ cfg.L ∧
    countM .entryGuard (guardSig (stepAll cfg beh w k op).2) ≤ 2 * (cfg.L + 1) := by
  have h := stepAll_shape cfg beh w k op
  generalize stepAll cfg beh w k op = r at h
  have nil : countM .exitGuard (guardSig []) ≤ cfg.L ∧ countM .entryGuard (guardSig []) ≤ 2 * (cfg.L + 1) :=
    ⟨Nat.zero_le _, Nat.zero_le _⟩
  cases h with
  | copy src sc hop h1 h2 => exact nil
  | step op' hs hd =>
    cases hs with
    | rejected name => exact nil
    | call tag slot c f ret name htag hget hf =>
      rw [onCore_snd, guardSig_append]
      have : guardSig [Ev.api op.inst k name (apiObs cfg (f { core := c }).1.core (ret (f { core := c }).1.core))] = [] := rfl
      rw [this, List.append_nil]
      exact apiStep_guard_bound (env := ⟨cfg, beh, op.inst, k⟩) hL hf
    | destroyManual c name hop hm hget => exact nil
    | destroyAuto c name _ hm hget =>
      rw [guardSig_append, guardSig_step_of_noGuard (noGuard_finalExit _)]
      exact nil
    | save c name o hget => exact nil

/-- **C12 over whole histories — a replica loaded from a saved authority is in the authority's state.**  In
    every world any history can reach, for any two existing instances for which `save`/`load` is in contract
    (serialization enabled; manual activation, or both machines active): after `replica.load(authority.save())`
    the replica's active state is exactly the authority's (both inactive included). -/
theorem C12_history_roundtrip (cfg : Cfg) (hwf : cfg.WF) (beh : Beh) (ops : List Op) (i src k : Nat) (c sc : Core)
    (hi : (run cfg beh ops).1.get i = some c) (hs : (run cfg beh ops).1.get src = some sc)
    (hcond : (cfg.serialization && (cfg.manual || (c.active != 255 && sc.active != 255))) = true) :
    actOf ((stepAll cfg beh (run cfg beh ops).1 k (.load i src)).1.get i) = sc.active := by
  have hok := run_worldOk cfg hwf beh ops src sc hs
  generalize (run cfg beh ops).1 = w at hi hs
  have hstep : stepAll cfg beh w k (.load i src) =
      onCore cfg w i k "load" c (load ⟨cfg, beh, i, k⟩ (save cfg sc)) := by
    simp only [stepAll, step, Op.inst, Op.name, hi, hs]
    rw [if_pos hcond]
  rw [hstep, onCore_fst, World.get_put_same]
  simp only [Bool.and_eq_true, Bool.or_eq_true] at hcond
  show (load ⟨cfg, beh, i, k⟩ (save cfg sc) { core := c }).1.core.active = sc.active
  rcases hok.active with ha | ha
  · refine (C12_roundtrip_active ⟨cfg, beh, i, k⟩ hwf sc ha { core := c } ?_).1
    rcases hcond.2 with hm | ⟨h1, _⟩
    · exact Or.inr hm
    · exact Or.inl (by simpa using h1)
  · have hm : cfg.manual = true := by
      rcases hcond.2 with hm | ⟨_, h2⟩
      · exact hm
      · simp [ha] at h2
    rw [ha]
    exact C12_roundtrip_inactive ⟨cfg, beh, i, k⟩ hwf hm sc ha { core := c }

/-! ### C09 on the event level: plan outcome callbacks per API call -/

/-- a delivery of `planFailed` / `planSucceeded` -/
def Ev.isOutcome : Ev → Bool
  | .cb k _ _ => k.method == .planFailed || k.method == .planSucceeded
  | _ => false

theorem methodPred_isOutcome : MethodPred Ev.isOutcome :=
  ⟨fun e h => by cases e <;> simp_all [Ev.isOutcome, Ev.isCb], fun k k' _ _ _ _ h => by simp [Ev.isOutcome, h]⟩

theorem outcome_excl {m : Method} (h1 : m ≠ .planFailed) (h2 : m ≠ .planSucceeded) : Excl Ev.isOutcome m := by
  intro k _ _ hk
  simp [Ev.isOutcome, hk, h1, h2]

theorem exclCore_isOutcome : ExclCore Ev.isOutcome :=
  ⟨outcome_excl (by decide) (by decide), outcome_excl (by decide) (by decide), outcome_excl (by decide) (by decide),
   outcome_excl (by decide) (by decide), outcome_excl (by decide) (by decide)⟩

theorem outcomes_append (a b : List Ev) : outcomes (a ++ b) = outcomes a ++ outcomes b := by
  simp [outcomes, ownSig_append, List.filterMap_append]

theorem outcomes_of_silent {es : List Ev} (h : es.filter Ev.isOutcome = []) : outcomes es = [] := by
  induction es with
  | nil => rfl
  | cons e es ih =>
    simp only [List.filter_cons] at h
    split at h
    · cases h
    · rename_i hne
      show outcomes ([e] ++ es) = []
      rw [outcomes_append, ih h, List.append_nil]
      cases e with
      | cb k v o =>
        simp only [Ev.isOutcome] at hne
        simp only [outcomes, ownSig, List.filterMap_cons, List.filterMap_nil, ownSigEv]
        have hf : (k.method == Method.planFailed || k.method == Method.planSucceeded) = false := by simpa using hne
        by_cases hl : (k.layer == Ancestors.Layer.own) = true
        · simp only [hl, if_true, List.filterMap_cons, List.filterMap_nil]
          simp only [Bool.or_eq_false_iff, beq_eq_false_iff_ne] at hf
          simp [hf.1, hf.2]
        · simp [hl]
      | act k a => rfl
      | log i r => rfl
      | api i o n ob => rfl
      | rejected i o n => rfl

theorem outcomes_step_of_silent {f : Step} (h : Silent Ev.isOutcome f) (s : St) : outcomes (f s).2 = [] := outcomes_of_silent (h s)

/-- everything of `update()` / `react()` other than the plan step delivers no outcome callback: the call's
    outcome callbacks are exactly those of its plan step -/
theorem outcomes_cycle (env : Env) (pre mid post : Method)
    (h1 : Excl Ev.isOutcome pre) (h2 : Excl Ev.isOutcome mid) (h3 : Excl Ev.isOutcome post) (s : St) :
    (outcomes (cycle env pre mid post s).2).length ≤ 1 := by
  have hph : ∀ m hf, Excl Ev.isOutcome m → Silent Ev.isOutcome (phase env m hf) :=
    fun m hf hm => silent_phase methodPred_isOutcome env m hm hf
  unfold cycle
  simp only [Step.seq, Step.modify, List.nil_append, outcomes_append]
  rw [outcomes_step_of_silent (hph pre _ h1), outcomes_step_of_silent (hph mid _ h2),
    outcomes_step_of_silent (hph post _ h3), outcomes_step_of_silent (silentG_processRequest methodPred_isOutcome exclCore_isOutcome env)]
  simp only [List.nil_append, List.append_nil]
  split
  · exact C09_exclusive env _
  · simp [skip, outcomes, ownSig]

/-- **C09 over whole histories: at most one plan outcome callback per API call**, and none at all outside
    `update()` / `react()` — in every call of every history, from any world -/
theorem C09_history_at_most_one (cfg : Cfg) (beh : Beh) (w : World) (k : Nat) (op : Op) :
    (outcomes (stepAll cfg beh w k op).2).length ≤ 1 ∧
    ((∀ i, op ≠ .update i) → (∀ i, op ≠ .react i) → outcomes (stepAll cfg beh w k op).2 = []) := by
  have h := stepAll_shape cfg beh w k op
  generalize hr : stepAll cfg beh w k op = r at h
  have nil : (outcomes ([] : List Ev)).length ≤ 1 := by simp [outcomes, ownSig]
  have hp := methodPred_isOutcome
  have hx := exclCore_isOutcome
  have none_of : ∀ {f : Step} (c : Core) (i : Nat) (name : String) (ret : Core → Option Bool),
      Silent Ev.isOutcome f → outcomes (onCore cfg w i k name c f ret).2 = [] := by
    intro f c i name ret hf
    rw [onCore_snd, outcomes_append, outcomes_step_of_silent hf]
    rfl
  cases h with
  | copy src sc hop h1 h2 => exact ⟨nil, fun _ _ => rfl⟩
  | step op' hs hd =>
    cases hs with
    | rejected name => exact ⟨nil, fun _ _ => rfl⟩
    | destroyManual c name hop hm hget => exact ⟨nil, fun _ _ => rfl⟩
    | destroyAuto c name _ hm hget =>
      have : outcomes ((finalExit ⟨cfg, beh, op.inst, k⟩ { core := c }).2 ++
          [Ev.api op.inst k name (apiObs cfg (finalExit ⟨cfg, beh, op.inst, k⟩ { core := c }).1.core)]) = [] := by
        rw [outcomes_append, outcomes_step_of_silent (silentG_finalExit hp hx _)]; rfl
      rw [this]; exact ⟨nil, fun _ _ => rfl⟩
    | save c name o hget => exact ⟨nil, fun _ _ => rfl⟩
    | call tag slot c f ret name htag hget hf =>
      have quiet : Silent Ev.isOutcome f → (outcomes (onCore cfg w op.inst k name c f ret).2).length ≤ 1 ∧
          ((∀ i, op ≠ .update i) → (∀ i, op ≠ .react i) → outcomes (onCore cfg w op.inst k name c f ret).2 = []) := by
        intro hs
        rw [none_of c op.inst name ret hs]
        exact ⟨nil, fun _ _ => rfl⟩
      cases hf with
      | constructManual => exact quiet (silent_skip _)
      | constructAuto => exact quiet (silentG_initialEnter hp hx _)
      | enter => exact quiet (silentG_initialEnter hp hx _)
      | exit => exact quiet (silentG_finalExit hp hx _)
      | update c ha =>
        have e : outcomes [Ev.api op.inst k name (apiObs cfg (update ⟨cfg, beh, op.inst, k⟩ { core := c }).1.core
            (ret (update ⟨cfg, beh, op.inst, k⟩ { core := c }).1.core))] = [] := rfl
        refine ⟨?_, fun hu hre => ?_⟩
        · rw [onCore_snd, outcomes_append, e, List.append_nil]
          exact outcomes_cycle ⟨cfg, beh, op.inst, k⟩ .preUpdate .update .postUpdate
            (outcome_excl (by decide) (by decide)) (outcome_excl (by decide) (by decide)) (outcome_excl (by decide) (by decide)) { core := c }
        · exfalso
          have hop' : ∃ i, op' = .update i := by cases op' <;> simp [Op.tag] at htag <;> exact ⟨_, rfl⟩
          obtain ⟨i, rfl⟩ := hop'
          rcases hd with rfl | ⟨_, h2⟩
          · exact hu i rfl
          · simp [Op.tag] at h2
      | react c ha =>
        have e : outcomes [Ev.api op.inst k name (apiObs cfg (react ⟨cfg, beh, op.inst, k⟩ { core := c }).1.core
            (ret (react ⟨cfg, beh, op.inst, k⟩ { core := c }).1.core))] = [] := rfl
        refine ⟨?_, fun hu hre => ?_⟩
        · rw [onCore_snd, outcomes_append, e, List.append_nil]
          exact outcomes_cycle ⟨cfg, beh, op.inst, k⟩ .preReact .react .postReact
            (outcome_excl (by decide) (by decide)) (outcome_excl (by decide) (by decide)) (outcome_excl (by decide) (by decide)) { core := c }
        · exfalso
          have hop' : ∃ i, op' = .react i := by cases op' <;> simp [Op.tag] at htag <;> exact ⟨_, rfl⟩
          obtain ⟨i, rfl⟩ := hop'
          rcases hd with rfl | ⟨_, h2⟩
          · exact hre i rfl
          · simp [Op.tag] at h2
      | query => exact quiet (silentG_query hp (outcome_excl (by decide) (by decide)) _)
      | change => exact quiet (silentG_extChange hp _ _ _)
      | immediate => exact quiet (Silent.seq (silentG_extChange hp _ _ _) (silentG_processRequest hp hx _))
      | status => exact quiet (silentG_extStatus hp _ _ _)
      | planAppend => exact quiet (silent_applyAction hp _ _ _)
      | planEdit => exact quiet (silent_applyAction hp _ _ _)
      | load => exact quiet (silentG_load hp hx _ _)
      | replayEnter => exact quiet (silentG_replayEnter hp hx _ _)
      | replayClear => exact quiet (silent_modifyCore _ _)
      | replayTransition => exact quiet (silentG_replayTransition hp hx _ _)
      | attachLogger => exact quiet (silent_modifyCore _ _)

/-! ### C09: never on a machine to which no task was added -/

/-- `update()` / `react()` on a core whose `planExists` flag is down: no outcome callback, flag still down -/
theorem cycle_noPlan (env : Env) (hb : NoAppendBeh env) (pre mid post : Method)
    (h1 : Excl Ev.isOutcome pre) (h2 : Excl Ev.isOutcome mid) (h3 : Excl Ev.isOutcome post) (s : St) (h : NoPlanQ s.core) :
    (cycle env pre mid post s).2.filter Ev.isOutcome = [] ∧ NoPlanQ (cycle env pre mid post s).1.core := by
  have hp := methodPred_isOutcome
  let P1 : Step := Step.modify (fun s => { s with ts := .none }) ⋙ phase env pre (headFirst pre) ⋙ phase env mid (headFirst mid) ⋙ phase env post (headFirst post)
  have hP1s : Silent Ev.isOutcome P1 :=
    Silent.seq (Silent.seq (Silent.seq (silent_modify _ _) (silent_phase hp env pre h1 _)) (silent_phase hp env mid h2 _)) (silent_phase hp env post h3 _)
  have hP1k : Keeps NoPlanQ P1 :=
    Keeps.seq (Keeps.seq (Keeps.seq (keeps_modify fun _ => rfl) (keepsNP_phase env hb _ _)) (keepsNP_phase env hb _ _)) (keepsNP_phase env hb _ _)
  have hq1 := hP1k s h
  have e : cycle env pre mid post = P1 ⋙ (if env.cfg.plans then planStep env else skip) ⋙ processRequest env := rfl
  rw [e]
  simp only [Step.seq, List.filter_append, hP1s s, List.nil_append]
  have hmid : ((if env.cfg.plans then planStep env else skip) (P1 s).1).2 = [] ∧
      NoPlanQ ((if env.cfg.plans then planStep env else skip) (P1 s).1).1.core := by
    split
    · exact planStep_noPlan env _ hq1
    · exact ⟨rfl, hq1⟩
  rw [hmid.1]
  exact ⟨silentG_processRequest hp exclCore_isOutcome env _, keepsNP_processRequest env hb _ hmid.2⟩

theorem query_keepsNP (env : Env) (hb : NoAppendBeh env) : Keeps NoPlanQ (query env) := by
  unfold query
  generalize headFirst Method.query = hfq
  cases hfq <;> simp only [if_true, if_false, Bool.false_eq_true] <;>
  exact keeps_dep fun s0 => Keeps.seq (keepsNP_deliver env hb _ _ _ _) (keepsNP_deliver env hb _ _ _ _)

/-- an accepted call other than `plan().change…()`, on a core whose flag is down, by an instance whose
    callbacks append no task: no outcome callback is delivered and the flag stays down -/
theorem apiStep_noPlan {w : World} {env : Env} (hb : NoAppendBeh env) {tag : ApiTag} {slot : Option Core} {c : Core} {f : Step}
    (h : ApiStep env.cfg w env tag slot c f) (htag : tag ≠ .planAppend) (hc : NoPlanQ c) :
    (f { core := c }).2.filter Ev.isOutcome = [] ∧ NoPlanQ (f { core := c }).1.core := by
  have hp := methodPred_isOutcome
  have hx := exclCore_isOutcome
  have ex : ∀ {m : Method}, m ≠ .planFailed → m ≠ .planSucceeded → Excl Ev.isOutcome m := fun a b => outcome_excl a b
  cases h with
  | constructManual => exact ⟨rfl, hc⟩
  | constructAuto => exact ⟨silentG_initialEnter hp hx env _, keepsNP_initialEnter env hb _ hc⟩
  | enter => exact ⟨silentG_initialEnter hp hx env _, keepsNP_initialEnter env hb _ hc⟩
  | exit => exact ⟨silentG_finalExit hp hx env _, keepsNP_finalExit env hb _ hc⟩
  | update => exact cycle_noPlan env hb _ _ _ (ex (by decide) (by decide)) (ex (by decide) (by decide)) (ex (by decide) (by decide)) _ hc
  | react => exact cycle_noPlan env hb _ _ _ (ex (by decide) (by decide)) (ex (by decide) (by decide)) (ex (by decide) (by decide)) _ hc
  | query => exact ⟨silentG_query hp (ex (by decide) (by decide)) env _, query_keepsNP env hb _ hc⟩
  | change => exact ⟨silentG_extChange hp env _ _ _, hc⟩
  | immediate c d p =>
    exact ⟨(Silent.seq (silentG_extChange hp env d p) (silentG_processRequest hp hx env)) _,
      (Keeps.seq (keepsNP_extChange env d p) (keepsNP_processRequest env hb)) _ hc⟩
  | status => exact ⟨silentG_extStatus hp env _ _ _, keepsNP_extStatus env _ _ _ hc⟩
  | planAppend => exact absurd rfl htag
  | planEdit c a ha _ => exact ⟨silent_applyAction hp env 255 a _, keepsNP_applyAction env 255 a ha _ hc⟩
  | load => exact ⟨silentG_load hp hx env _ _, keepsNP_load env hb _ _ hc⟩
  | replayEnter => exact ⟨silentG_replayEnter hp hx env _ _, keepsNP_replayEnter env hb _ _ hc⟩
  | replayClear => exact ⟨rfl, hc⟩
  | replayTransition => exact ⟨silentG_replayTransition hp hx env _ _, keepsNP_replayTransition env hb _ _ hc⟩
  | attachLogger => exact ⟨rfl, hc⟩

/-- the slot of instance `i` holds no machine, or one whose `planExists` flag is down -/
def SlotNoPlan (w : World) (i : Nat) : Prop := ∀ c, w.get i = some c → NoPlanQ c

theorem stepAll_noPlan (cfg : Cfg) (beh : Beh) (w : World) (k : Nat) (op : Op) (i : Nat)
    (hbeh : ∀ key : Key, key.inst = i → ∀ a ∈ beh key, a.isAppend = false)
    (hop : ∀ o d p, op ≠ .planAppend i o d p) (hcopy : ∀ src, op ≠ .copy i src) (hw : SlotNoPlan w i) :
    SlotNoPlan (stepAll cfg beh w k op).1 i ∧
    ∀ e ∈ (stepAll cfg beh w k op).2, e.inst = i → e.isOutcome = false := by
  by_cases hi : op.inst = i
  · subst hi
    have h := stepAll_shape cfg beh w k op
    generalize stepAll cfg beh w k op = r at h
    have none_out : ∀ {es : List Ev}, es.filter Ev.isOutcome = [] → ∀ e ∈ es, e.inst = op.inst → e.isOutcome = false := by
      intro es h0 e he _
      cases hb : e.isOutcome
      · rfl
      · have : e ∈ es.filter Ev.isOutcome := List.mem_filter.mpr ⟨he, hb⟩
        rw [h0] at this; cases this
    cases h with
    | copy src sc hcp h1 h2 => exact absurd hcp (hcopy src)
    | step op' hs hd =>
      cases hs with
      | rejected name => exact ⟨hw, none_out rfl⟩
      | destroyManual c name hop' hm hget =>
        refine ⟨fun c' hc' => ?_, none_out (es := [Ev.api op.inst k name (apiObs cfg c)]) rfl⟩
        rw [World.get_put_same] at hc'; cases hc'
      | destroyAuto c name _ hm hget =>
        refine ⟨fun c' hc' => ?_, none_out ?_⟩
        · rw [World.get_put_same] at hc'; cases hc'
        · rw [List.filter_append, silentG_finalExit methodPred_isOutcome exclCore_isOutcome _ _]
          rfl
      | save c name o hget => exact ⟨hw, none_out rfl⟩
      | call tag slot c f ret name htag hget hf =>
        have htag' : tag ≠ .planAppend := by
          intro e
          subst e
          have hop' : ∃ o d p, op' = .planAppend op'.inst o d p := by
            cases op' <;> simp [Op.tag] at htag
            exact ⟨_, _, _, rfl⟩
          rcases hd with rfl | ⟨_, h2⟩
          · obtain ⟨o, d, p, e⟩ := hop'
            exact hop o d p e
          · obtain ⟨o, d, p, e⟩ := hop'
            rw [e] at h2; simp [Op.tag] at h2
        have hc : NoPlanQ c := by
          cases hf with
          | constructManual => rfl
          | constructAuto => rfl
          | _ => exact hw _ hget
        obtain ⟨a1, a2⟩ := apiStep_noPlan (env := ⟨cfg, beh, op.inst, k⟩) (fun key hk a ha => hbeh key hk a ha) hf htag' hc
        refine ⟨fun c' hc' => ?_, none_out ?_⟩
        · rw [onCore_fst, World.get_put_same] at hc'
          cases hc'; exact a2
        · rw [onCore_snd, List.filter_append, a1]; rfl
  · have hev := stepAll_events_inst cfg beh w k op
    refine ⟨fun c hc => hw c (by rw [stepAll_other cfg beh w k op i (fun e => hi e.symm)] at hc; exact hc), ?_⟩
    intro e he hei
    exact absurd ((hev e he).symm.trans hei) hi

/-- **C09 over whole histories — never on a machine to which no task was added.**  If neither the callbacks
    of instance `i` nor any API call ever append a task to `i`'s plan (and `i` is not created as a copy of a
    machine that has one), then in no history, whatever statuses are reported, whatever the storage held
    before, is `planSucceeded()` or `planFailed()` ever delivered to `i`. -/
theorem C09_history_never_without_task (cfg : Cfg) (beh : Beh) (ops : List Op) (i : Nat)
    (hbeh : ∀ key : Key, key.inst = i → ∀ a ∈ beh key, a.isAppend = false)
    (hops : ∀ o d p, Op.planAppend i o d p ∉ ops) (hcopy : ∀ src, Op.copy i src ∉ ops) :
    ∀ e ∈ (run cfg beh ops).2, e.inst = i → e.isOutcome = false := by
  have gen : ∀ (ops : List Op) (w : World) (k : Nat), SlotNoPlan w i →
      (∀ o d p, Op.planAppend i o d p ∉ ops) → (∀ src, Op.copy i src ∉ ops) →
      ∀ e ∈ (runFrom cfg beh w k ops).2, e.inst = i → e.isOutcome = false := by
    intro ops
    induction ops with
    | nil => intro w k _ _ _ e he; cases he
    | cons op ops ih =>
      intro w k hw h1 h2 e he hei
      obtain ⟨s1, s2⟩ := stepAll_noPlan cfg beh w k op i hbeh
        (fun o d p e' => h1 o d p (by rw [← e']; simp)) (fun src e' => h2 src (by rw [← e']; simp)) hw
      simp only [runFrom, List.mem_append] at he
      rcases he with he | he
      · exact s2 e he hei
      · exact ih _ _ s1 (fun o d p h => h1 o d p (List.mem_cons_of_mem _ h)) (fun src h => h2 src (List.mem_cons_of_mem _ h)) e he hei
  exact gen ops [] 0 (fun c hc => by simp [World.get] at hc) hops hcopy

/-! ### every event of every history -/

/-- a predicate that holds of everything any call can emit holds of every event of every history -/
theorem run_allEv (cfg : Cfg) (beh : Beh) (P : Ev → Prop) (hP : ∀ i k, EnvPred ⟨cfg, beh, i, k⟩ P)
    (hapi : ∀ i k name o, P (.api i k name o)) (hrej : ∀ i k name, P (.rejected i k name)) (ops : List Op) :
    ∀ e ∈ (run cfg beh ops).2, P e := by
  have one : ∀ (w : World) (k : Nat) (op : Op), ∀ e ∈ (stepAll cfg beh w k op).2, P e := by
    intro w k op e he
    have h := stepAll_shape cfg beh w k op
    generalize stepAll cfg beh w k op = r at h he
    cases h with
    | copy src sc hop h1 h2 => simp only [List.mem_singleton] at he; rw [he]; exact hapi _ _ _ _
    | step op' hs hd =>
      cases hs with
      | rejected name => simp only [List.mem_singleton] at he; rw [he]; exact hrej _ _ _
      | call tag slot c f ret name htag hget hf =>
        rw [onCore_snd, List.mem_append] at he
        rcases he with he | he
        · exact apiStep_allEv (hP op.inst k) hf _ e he
        · simp only [List.mem_singleton] at he; rw [he]; exact hapi _ _ _ _
      | destroyManual c name hop hm hget => simp only [List.mem_singleton] at he; rw [he]; exact hapi _ _ _ _
      | destroyAuto c name _ hm hget =>
        rw [List.mem_append] at he
        rcases he with he | he
        · exact allEv_finalExit (hP op.inst k) _ e he
        · simp only [List.mem_singleton] at he; rw [he]; exact hapi _ _ _ _
      | save c name o hget => simp only [List.mem_singleton] at he; rw [he]; exact hapi _ _ _ _
  have gen : ∀ (ops : List Op) (w : World) (k : Nat), ∀ e ∈ (runFrom cfg beh w k ops).2, P e := by
    intro ops
    induction ops with
    | nil => intro w k e he; cases he
    | cons op ops ih =>
      intro w k e he
      simp only [runFrom, List.mem_append] at he
      rcases he with he | he
      · exact one w k op e he
      · exact ih _ _ e he
  exact gen ops [] 0

/-- what a delivery's control object shows: its own id is the state the delivery is keyed to, `isActive(j)`
    is one-hot at the machine's active state -/
def ViewOk (cfg : Cfg) : Ev → Prop
  | .cb k _ o => o.stateId = k.sid ∧ o.ctlActive = (List.range cfg.n).map (fun j => o.machActive == j)
  | _ => True

/-- **C06 over whole histories — every callback of every history sees a consistent control**: for every
    delivery event (every layer: injections and the state's own callback, every control flavour) of every
    history, `control.stateId()` is the id of the state the callback belongs to, and `control.isActive(j)`
    answers exactly `j == the machine's active state` for every `j` (including 0). -/
theorem C06_history_view (cfg : Cfg) (beh : Beh) (ops : List Op) : ∀ e ∈ (run cfg beh ops).2, ViewOk cfg e :=
  run_allEv cfg beh (ViewOk cfg)
    (fun _ _ => ⟨fun _ _ _ _ _ _ _ => ⟨rfl, rfl⟩, fun _ _ _ _ => trivial, fun _ => trivial⟩)
    (fun _ _ _ _ => trivial) (fun _ _ _ => trivial) ops

/-- … and every event carries the index of the call that produced it: no callback runs outside an API call -/
theorem C05_history_events_in_calls (cfg : Cfg) (beh : Beh) (ops : List Op) :
    ∀ e ∈ (run cfg beh ops).2, ∀ k vis o, e = Ev.cb k vis o → k.op < ops.length := by
  have gen : ∀ (ops : List Op) (w : World) (k0 : Nat), ∀ e ∈ (runFrom cfg beh w k0 ops).2, ∀ k vis o, e = Ev.cb k vis o →
      k0 ≤ k.op ∧ k.op < k0 + ops.length := by
    intro ops
    induction ops with
    | nil => intro w k0 e he; cases he
    | cons op ops ih =>
      intro w k0 e he k vis o hk
      simp only [runFrom, List.mem_append] at he
      rcases he with he | he
      · have h := stepAll_shape cfg beh w k0 op
        have key : ∀ e ∈ (stepAll cfg beh w k0 op).2, ∀ k vis o, e = Ev.cb k vis o → k.op = k0 := by
          intro e he
          generalize stepAll cfg beh w k0 op = r at h he
          have hP : EnvPred ⟨cfg, beh, op.inst, k0⟩ (fun e => ∀ k vis o, e = Ev.cb k vis o → k.op = k0) :=
            ⟨(fun _ _ _ _ _ _ _ k vis o e => by cases e; rfl), (fun _ _ _ _ k vis o e => by cases e), (fun _ k vis o e => by cases e)⟩
          cases h with
          | copy src sc hop h1 h2 => simp only [List.mem_singleton] at he; rw [he]; intro k vis o e; cases e
          | step op' hs hd =>
            cases hs with
            | rejected name => simp only [List.mem_singleton] at he; rw [he]; intro k vis o e; cases e
            | call tag slot c f ret name htag hget hf =>
              rw [onCore_snd, List.mem_append] at he
              rcases he with he | he
              · exact apiStep_allEv hP hf _ e he
              · simp only [List.mem_singleton] at he; rw [he]; intro k vis o e; cases e
            | destroyManual c name hop hm hget => simp only [List.mem_singleton] at he; rw [he]; intro k vis o e; cases e
            | destroyAuto c name _ hm hget =>
              rw [List.mem_append] at he
              rcases he with he | he
              · exact allEv_finalExit hP _ e he
              · simp only [List.mem_singleton] at he; rw [he]; intro k vis o e; cases e
            | save c name o hget => simp only [List.mem_singleton] at he; rw [he]; intro k vis o e; cases e
        have := key e he k vis o hk
        simp only [List.length_cons]
        omega
      · have := ih _ (k0 + 1) e he k vis o hk
        simp only [List.length_cons]
        omega
  intro e he k vis o hk
  have := gen ops [] 0 e he k vis o hk
  omega

theorem ownSig_api (i k : Nat) (name : String) (o : ApiObs) : ownSig [Ev.api i k name o] = [] := rfl

/-- **C02 over whole histories — a request is inert until processed**: `changeTo()` / `changeWith()` from
    outside, from any world, run no callback of any kind and leave the active state of every instance as it
    was; when accepted, exactly that request (origin: none, the destination, the payload) is outstanding -/
theorem C02_history_request_inert (cfg : Cfg) (beh : Beh) (w : World) (k i d : Nat) :
    (∀ j, actOf ((stepAll cfg beh w k (.changeTo i d)).1.get j) = actOf (w.get j)) ∧
    ownSig (stepAll cfg beh w k (.changeTo i d)).2 = [] ∧
    (∀ j x, actOf ((stepAll cfg beh w k (.changeWith i d x)).1.get j) = actOf (w.get j)) ∧
    (∀ x, ownSig (stepAll cfg beh w k (.changeWith i d x)).2 = []) ∧
    (∀ c c', w.get i = some c → (c.active != 255 && idOk cfg d) = true →
      (stepAll cfg beh w k (.changeTo i d)).1.get i = some c' → c'.request = ⟨255, d, none⟩) := by
  have core : ∀ (c : Core) (p : Option Nat) (name : String) (j : Nat), w.get i = some c →
      actOf ((onCore cfg w i k name c (extChange ⟨cfg, beh, i, k⟩ d p)).1.get j) = actOf (w.get j) ∧
      ownSig (onCore cfg w i k name c (extChange ⟨cfg, beh, i, k⟩ d p)).2 = [] := by
    intro c p name j hg
    rw [onCore_fst, onCore_snd, ownSig_append, ownSig_api, List.append_nil]
    refine ⟨?_, ownSig_logEv _ _ _⟩
    by_cases hj : j = i
    · subst hj; rw [World.get_put_same, hg]; rfl
    · rw [World.get_put_ne _ _ _ _ hj]
  refine ⟨?_, ?_, ?_, ?_, ?_⟩
  · intro j
    simp only [stepAll, step, Op.inst, Op.name]
    cases hg : w.get i with
    | none => rfl
    | some c =>
      dsimp only
      split
      · exact (core c none _ j hg).1
      · rfl
  · simp only [stepAll, step, Op.inst, Op.name]
    cases hg : w.get i with
    | none => rfl
    | some c =>
      dsimp only
      split
      · exact (core c none _ 0 hg).2
      · rfl
  · intro j x
    simp only [stepAll, step, Op.inst, Op.name]
    cases hg : w.get i with
    | none => rfl
    | some c =>
      dsimp only
      split
      · exact (core c (some x) _ j hg).1
      · rfl
  · intro x
    simp only [stepAll, step, Op.inst, Op.name]
    cases hg : w.get i with
    | none => rfl
    | some c =>
      dsimp only
      split
      · exact (core c (some x) _ 0 hg).2
      · rfl
  · intro c c' hg hcond hget
    simp only [stepAll, step, Op.inst, Op.name, hg] at hget
    rw [if_pos hcond, onCore_fst, World.get_put_same] at hget
    cases hget
    rfl

/-! ### C11: `previousTransition()` on every reachable state; a replica fed from it stays in sync -/

theorem prev_clear_invalid (t : Tr) : t.clear.valid = false := by simp [Tr.clear, Tr.valid]

theorem prevOk_finalExit (env : Env) (s : St) (h : PrevOk env.cfg s.core) : PrevOk env.cfg (finalExit env s).1.core := by
  have hp := finalExit_prev env s
  unfold PrevOk at *
  by_cases hh : env.cfg.history = true
  · simp only [hh, if_true] at *
    rw [hp]; intro hv; rw [prev_clear_invalid] at hv; cases hv
  · have hh' : env.cfg.history = false := by simpa using hh
    simp only [hh', Bool.false_eq_true, if_false] at *
    rw [hp]; exact h

theorem prev_invalid_of_inactive {cfg : Cfg} {c : Core} (h : PrevOk cfg c) (ha : c.active = 255) : c.prev.valid = false := by
  unfold PrevOk at h
  split at h
  · cases hv : c.prev.valid
    · rfl
    · have := h hv
      rw [ha] at this
      simp [Tr.valid, this] at hv
  · exact h

theorem prevOk_load (env : Env) (buf : List Nat) (s : St) (h : PrevOk env.cfg s.core) : PrevOk env.cfg (load env buf s).1.core := by
  unfold load
  dsimp only
  split
  · split
    · -- loadActive: history cleared (or never present), then a change that does not write it
      unfold loadActive
      simp only [Step.seq, modifyCore]
      apply prevOk_of_cleared
      rw [prevSame_changeToRequested]
      have hi : ¬ env.cfg.history = true → s.core.prev.valid = false := by
        intro hh; unfold PrevOk at h; simpa [hh] using h
      cases hp : env.cfg.plans <;> cases hh : env.cfg.history <;> simp [planDataClear, prev_clear_invalid] <;> exact hi (by simp [hh])
    · rename_i hact
      have ha : s.core.active = 255 := by simpa using hact
      have hinv := prev_invalid_of_inactive h ha
      split
      · apply prevOk_of_cleared
        simp only [Step.seq, modifyCore]
        rw [prevSame_deepEnter]; exact hinv
      · exact h
  · split
    · exact prevOk_finalExit env s h
    · exact h

theorem apiStep_prevOk {w : World} {env : Env} (hwf : env.cfg.WF) {tag : ApiTag} {slot : Option Core} {c : Core} {f : Step}
    (h : ApiStep env.cfg w env tag slot c f) (hc : PrevOk env.cfg c) : PrevOk env.cfg (f { core := c }).1.core := by
  cases h with
  | constructManual => exact hc
  | constructAuto => exact prevOk_initialEnter env _ hc
  | enter => exact prevOk_initialEnter env _ hc
  | exit => exact prevOk_finalExit env _ hc
  | update => exact prevOk_cycle env _ _ _ _ hc
  | react => exact prevOk_cycle env _ _ _ _ hc
  | query =>
    have hq : PrevSame (query env) := by
      unfold query
      generalize headFirst Method.query = hfq
      cases hfq <;> simp only [if_true, if_false, Bool.false_eq_true] <;>
      exact prevSame_dep fun s0 => PrevSame.seq (prevSame_deliver env _ _ _ _) (prevSame_deliver env _ _ _ _)
    exact prevOk_of_same hc (hq _) (query_quiet env _).2
  | change => exact prevOk_of_same hc rfl rfl
  | immediate c d p => exact prevOk_processRequest env _ (prevOk_of_same hc rfl rfl)
  | status c id ok => exact prevOk_of_same hc (by cases ok <;> rfl) (by cases ok <;> rfl)
  | planAppend c o d p => exact prevOk_of_same hc (prevSame_applyAction env 255 _ _) (stable_applyAction env 255 _ _).1
  | planEdit c a => exact prevOk_of_same hc (prevSame_applyAction env 255 a _) (stable_applyAction env 255 a _).1
  | load => exact prevOk_load env _ _ hc
  | replayEnter c d hh hm ha hd =>
    have hne : d ≠ 255 := id_ne_255 hwf hd
    have hact := (C11_replayEnter_spec env d hne { core := c }).1
    have hprev : (replayEnter env d { core := c }).1.core.prev = ⟨255, d, none⟩ := by
      unfold replayEnter
      simp only [Step.seq, modifyCore]
      rw [prevSame_deepEnter]
    unfold PrevOk
    simp only [hh, if_true]
    rw [hprev, hact]; intro _; rfl
  | replayClear c hh ha =>
    apply prevOk_of_cleared
    exact prev_clear_invalid _
  | replayTransition c d hh ha hd =>
    have hne : d ≠ 255 := id_ne_255 hwf hd
    have hact := (C11_replay_spec env d hne { core := c }).1
    have hprev : (replayTransition env d { core := c }).1.core.prev = ⟨255, d, none⟩ := by
      unfold replayTransition
      simp only [Step.seq, modifyCore]
      rw [prevSame_changeToRequested]
    unfold PrevOk
    simp only [hh, if_true]
    rw [hprev, hact]; intro _; rfl
  | attachLogger => exact prevOk_of_same hc rfl rfl

def WorldPrevOk (cfg : Cfg) (w : World) : Prop := ∀ i c, w.get i = some c → PrevOk cfg c

theorem stepAll_prevOk (cfg : Cfg) (hwf : cfg.WF) (beh : Beh) (w : World) (k : Nat) (op : Op) (hw : WorldPrevOk cfg w) :
    WorldPrevOk cfg (stepAll cfg beh w k op).1 := by
  have h := stepAll_shape cfg beh w k op
  generalize stepAll cfg beh w k op = r at h
  have put : ∀ (i : Nat) (c : Option Core), (∀ c0, c = some c0 → PrevOk cfg c0) → WorldPrevOk cfg (w.put i c) := by
    intro i c hc j cj hj
    by_cases e : j = i
    · subst e; rw [World.get_put_same] at hj; exact hc cj hj
    · rw [World.get_put_ne _ _ _ _ e] at hj; exact hw j cj hj
  cases h with
  | copy src sc hop h1 h2 => exact put _ _ (fun c0 e => by cases e; exact hw src sc h2)
  | step op' hs hd =>
    cases hs with
    | rejected name => exact hw
    | call tag slot c f ret name htag hget hf =>
      rw [onCore_fst]
      refine put _ _ (fun c0 e => ?_)
      cases e
      refine apiStep_prevOk (env := ⟨cfg, beh, op.inst, k⟩) hwf hf ?_
      cases hf with
      | constructManual => exact prevOk_of_cleared rfl
      | constructAuto => exact prevOk_of_cleared rfl
      | _ => exact hw _ _ hget
    | destroyManual c name hop hm hget => exact put _ _ (fun c0 e => by cases e)
    | destroyAuto c name _ hm hget => exact put _ _ (fun c0 e => by cases e)
    | save c name o hget => exact hw

/-- **C11 over whole histories — the history names where the machine is**: in every state any history can
    reach, a present `previousTransition()` has the active state as its destination (so a machine that is
    inactive, or whose last call applied nothing, shows none), and with transition history disabled none is
    ever shown -/
theorem C11_history_prev_names_active (cfg : Cfg) (hwf : cfg.WF) (beh : Beh) (ops : List Op) (i : Nat) (c : Core)
    (h : (run cfg beh ops).1.get i = some c) :
    (cfg.history = true → c.prev.valid = true → c.prev.dest = c.active) ∧
    (cfg.history = false → c.prev.valid = false) := by
  have gen : ∀ (ops : List Op) (w : World) (k : Nat), WorldPrevOk cfg w → WorldPrevOk cfg (runFrom cfg beh w k ops).1 := by
    intro ops
    induction ops with
    | nil => intro w k hw; exact hw
    | cons op ops ih => intro w k hw; exact ih _ _ (stepAll_prevOk cfg hwf beh w k op hw)
  have hok : PrevOk cfg c := gen ops [] 0 (fun i c h => by simp [World.get] at h) i c h
  unfold PrevOk at hok
  constructor
  · intro hh; simpa [hh] using hok
  · intro hh; simpa [hh] using hok

/-- **C11 over whole histories — a replica fed the authority's history is in the authority's state.**  From any
    reachable world, for an active authority `a` and an active replica `r` (transition history enabled):
    after `replica.replayTransition(authority.previousTransition().destination)` the replica is in the
    authority's active state whenever the authority has a history to give; when it has none
    (`destination == INVALID`) the replica stays where it was. -/
theorem C11_history_replica_sync (cfg : Cfg) (hwf : cfg.WF) (hh : cfg.history = true) (beh : Beh) (ops : List Op)
    (a r k : Nat) (ca cr : Core)
    (ha : (run cfg beh ops).1.get a = some ca) (hr : (run cfg beh ops).1.get r = some cr) (hract : cr.active ≠ 255) :
    actOf ((stepAll cfg beh (run cfg beh ops).1 k (.replayFrom r a)).1.get r) =
      if ca.prev.valid then ca.active else cr.active := by
  have hprev := (C11_history_prev_names_active cfg hwf beh ops a ca ha).1 hh
  have hok := run_worldOk cfg hwf beh ops a ca ha
  generalize (run cfg beh ops).1 = w at ha hr
  have hra : (cr.active != 255) = true := by simpa using hract
  cases hv : ca.prev.valid
  · -- nothing to replay: `replayTransition(INVALID)`
    have hd : (if cfg.history = true then ca.prev.canon.dest else 255) = 255 := by
      simp [hh, Tr.canon, hv]
    simp only [stepAll, ha, hd, Bool.false_eq_true, if_false]
    simp only [step, Op.inst, Op.name, hr, hh, hra, Bool.true_and, idOk, beq_self_eq_true, Bool.or_true, if_true]
    rw [onCore_fst, World.get_put_same]
    rfl
  · have hdest : ca.prev.dest = ca.active := hprev hv
    have hne : ca.prev.dest ≠ 255 := by simpa [Tr.valid] using hv
    have hlt : ca.prev.dest < cfg.n := by
      rcases hok.active with h1 | h1
      · rw [hdest]; exact h1
      · rw [hdest] at hne; exact absurd h1 hne
    have hd : (if cfg.history = true then ca.prev.canon.dest else 255) = ca.prev.dest := by
      simp [hh, Tr.canon, hv]
    have hne' : (ca.prev.dest == 255) = false := by simpa using hne
    simp only [stepAll, ha, hd, if_true]
    simp only [step, Op.inst, Op.name, hr, hh, hra, Bool.true_and, idOk, decide_eq_true hlt, Bool.true_or, if_true, hne',
      Bool.false_eq_true, if_false]
    rw [onCore_fst, World.get_put_same]
    show (replayTransition ⟨cfg, beh, r, k⟩ ca.prev.dest { core := cr }).1.core.active = ca.active
    rw [(C11_replay_spec _ _ hne _).1, hdest]

/-! ### C07: provenance of every transition and task shown to user code -/

/-- **C07 over whole histories — payloads (and origins, destinations) travel intact.**  Let `M` be the set of
    transitions requested anywhere in the history: by `changeTo` / `changeWith` / `immediateChange…` /
    `replayTransition` / `replayEnter` calls (origin "none"), by `changeTo` / `changeWith` inside callbacks
    (origin: the calling state), and the tasks appended to a plan (which become requests when they fire).
    Then in every callback of every history, everything the control object shows — the outstanding request,
    the pending transition a guard is asked about, the current transition a lifecycle callback runs under, every
    task of the plan — is, field for field (origin, destination, payload or its absence), an element of `M`; and
    so is every instance's outstanding request, previous transition and plan when the history ends.  No payload
    is ever shown with a request it was not attached to, a payload-free request never shows one. -/
theorem C07_history_provenance (cfg : Cfg) (beh : Beh) (ops : List Op) (hnr : ∀ op ∈ ops, op.isReplayFrom = false) :
    ObsAll (MadeBy ops (run cfg beh ops).2) (run cfg beh ops).2 ∧
    WProv (MadeBy ops (run cfg beh ops).2) (run cfg beh ops).1 := by
  have h := runFrom_prov (M := MadeBy ops (run cfg beh ops).2) cfg beh ops [] 0
    (fun i c hc => by simp [World.get] at hc)
    (fun op hop t ht => Or.inl ⟨op, hop, ht⟩) hnr
    (fun e he t ht => Or.inr ⟨e, he, ht⟩)
  exact ⟨h.2, h.1⟩

/-- spelled out for one observation: a guard's pending transition with a payload `p` was requested with
    exactly that payload, for that destination, by that origin -/
theorem C07_history_pending_payload (cfg : Cfg) (beh : Beh) (ops : List Op) (hnr : ∀ op ∈ ops, op.isReplayFrom = false)
    (k : Key) (vis : Bool) (o : Obs) (he : Ev.cb k vis o ∈ (run cfg beh ops).2) (t : Tr) (hp : o.pending = some t) (hv : t.valid = true) :
    (∃ op ∈ ops, t ∈ op.ext) ∨ (∃ e ∈ (run cfg beh ops).2, e.made = some t) :=
  ((C07_history_provenance cfg beh ops hnr).1 _ he k vis o rfl).2.2.1 t hp hv

/-- non-vacuity: a payload-carrying request followed by a payload-free one; what the guards see -/
example :
    let cfg : Cfg := { n := 3, L := 2, cap := 1, hasPayload := true }
    let beh : Beh := fun k => if k.method = .update ∧ k.sid = 0 then [.changeWith 1 42, .changeTo 2] else []
    let r := run cfg beh [.construct 0 false, .update 0]
    (r.2.filterMap fun e => match e with | .cb k _ o => if k.method = .exitGuard then o.pending else none | _ => none)
      = [⟨0, 2, none⟩] := by decide

/-! ### C03 on the event level: vetoes as performed `cancelPendingTransition()` actions -/

/-- the guard rounds of one processing point, each as the list of events it produced -/
def roundEvs (env : Env) (s : St) : List (List Ev) :=
  if s.core.request.valid then substRoundEvs (guardRound env) (substFuel env.cfg.L) {} s else []

theorem survivor_all_cancelled (cur : Tr) (rounds : List (Tr × Bool)) (h : ∀ r ∈ rounds, r.2 = true) : survivor cur rounds = cur := by
  induction rounds generalizing cur with
  | nil => rfl
  | cons r rs ih =>
    simp only [survivor, List.foldl_cons, h r (by simp), if_true]
    exact ih cur (fun x hx => h x (by simp [hx]))

theorem rounds_flags (env : Env) (s : St) : (processRounds env s).map (·.2) = (roundEvs env s).map hasCancel := by
  unfold processRounds roundEvs
  split
  · exact (substLoop_rounds (guardRound env) (guardRound_cancelled env) _ _ _).2
  · rfl

/-- **C03 on what user code does**: (a) if in every guard round of a processing point some guard performed
    `cancelPendingTransition()`, nothing is applied — no lifecycle callback, same active state; (b) if the
    active state changed, some round ran without any performed cancellation, and the new active state is the
    destination that round was asked about -/
theorem C03_veto_on_events (env : Env) (s : St) :
    ((∀ es ∈ roundEvs env s, hasCancel es = true) →
        (processRequest env s).1.core.active = s.core.active ∧ sig (processRequest env s).2 = []) ∧
    ((processRequest env s).1.core.active ≠ s.core.active →
        ∃ k, ∃ hk : k < (processRounds env s).length, ∃ hk' : k < (roundEvs env s).length,
          hasCancel ((roundEvs env s)[k]) = false ∧ (processRequest env s).1.core.active = ((processRounds env s)[k]).1.dest) := by
  have hspec := processRequest_spec env s
  have hflags := rounds_flags env s
  have hlen : (processRounds env s).length = (roundEvs env s).length := by
    have := congrArg List.length hflags; simpa using this
  have hk_flag : ∀ k (hk : k < (processRounds env s).length) (hk' : k < (roundEvs env s).length),
      ((processRounds env s)[k]).2 = hasCancel ((roundEvs env s)[k]) := by
    intro k hk hk'
    have h1 : ((processRounds env s).map (·.2))[k]'(by simpa using hk) = ((processRounds env s)[k]).2 := by simp
    have h2 : ((roundEvs env s).map hasCancel)[k]'(by simpa using hk') = hasCancel ((roundEvs env s)[k]) := by simp
    rw [← h1, ← h2]
    congr 1
  constructor
  · intro hall
    have hr : ∀ r ∈ processRounds env s, r.2 = true := by
      intro r hr
      obtain ⟨k, hk, rfl⟩ := List.getElem_of_mem hr
      rw [hk_flag k hk (by omega)]
      exact hall _ (List.getElem_mem _)
    have hsv : survivor {} (processRounds env s) = {} := survivor_all_cancelled _ _ hr
    have hinv : (survivor {} (processRounds env s)).valid = false := by rw [hsv]; rfl
    exact hspec.2.2.2.1 hinv
  · intro hne
    rcases C03_veto_respected {} (processRounds env s) with e | ⟨r, hr, hr2, e⟩
    · have hinv : (survivor {} (processRounds env s)).valid = false := by rw [e]; rfl
      exact absurd (hspec.2.2.2.1 hinv).1 hne
    · obtain ⟨k, hk, rfl⟩ := List.getElem_of_mem hr
      have hv : (survivor {} (processRounds env s)).valid = true := by
        cases hv : (survivor {} (processRounds env s)).valid
        · exact absurd (hspec.2.2.2.1 hv).1 hne
        · rfl
      refine ⟨k, hk, by omega, ?_, ?_⟩
      · rw [← hk_flag k hk (by omega)]; exact hr2
      · rw [(hspec.2.2.2.2 hv).1, e]

/-- **C03 over whole histories**: `immediateChangeTo(d)` from any world: if some guard performed a
    cancellation in every round the call evaluated, the instance's active state is what it was and the call ran
    no `enter` / `exit` / `reenter` -/
theorem C03_history_vetoed_call (cfg : Cfg) (beh : Beh) (w : World) (k i d : Nat) (c : Core) (hg : w.get i = some c)
    (hall : ∀ es ∈ roundEvs ⟨cfg, beh, i, k⟩ (extChange ⟨cfg, beh, i, k⟩ d none { core := c }).1, hasCancel es = true) :
    actOf ((stepAll cfg beh w k (.immediateChangeTo i d)).1.get i) = c.active ∧
    sig (stepAll cfg beh w k (.immediateChangeTo i d)).2 = [] := by
  simp only [stepAll, step, Op.inst, Op.name, hg]
  split
  · have h := (C03_veto_on_events ⟨cfg, beh, i, k⟩ (extChange ⟨cfg, beh, i, k⟩ d none { core := c }).1).1 hall
    rw [onCore_fst, onCore_snd, World.get_put_same, sig_append, sig_api, List.append_nil, sig_seq]
    refine ⟨h.1, ?_⟩
    rw [h.2, List.append_nil]
    exact sig_logEv _ _ _
  · exact ⟨by rw [hg]; rfl, rfl⟩

/-! ### C17: a copy responds like its original -/

theorem stepAll_single (cfg : Cfg) (beh : Beh) (w : World) (k : Nat) (op : Op) (h : op.single = true) :
    stepAll cfg beh w k op = step cfg beh w k op := by
  cases op <;> first | rfl | simp [Op.single] at h

theorem onInst_single (op : Op) (j : Nat) (h : op.single = true) : (op.onInst j).single = true := by
  cases op <;> first | rfl | simp [Op.single] at h

theorem onInst_inst (op : Op) (j : Nat) : (op.onInst j).inst = j := by cases op <;> rfl

/-- the same calls made on instance `j` (holding the same core) instead of instance `i`: same resulting core,
    same trace up to the instance label — for any sequence of single-instance calls on `i`, from any two
    worlds, when user code treats the two instances alike -/
theorem runFrom_relabel (cfg : Cfg) (beh : Beh) (i j : Nat)
    (hb : ∀ key : Key, key.inst = i → beh (key.withInst j) = beh key) :
    ∀ (ops : List Op) (w w' : World) (k : Nat), w'.get j = w.get i →
      (∀ op ∈ ops, op.inst = i ∧ op.single = true) →
      Mirrors i j (runFrom cfg beh w k ops) (runFrom cfg beh w' k (ops.map (Op.onInst j)))
  | [], _, _, _, h, _ => ⟨h, rfl⟩
  | op :: ops, w, w', k, h, hops => by
    obtain ⟨hi, hs⟩ := hops op (by simp)
    have hm := step_relabel cfg beh w w' k op j (by rw [hi]; exact h) (by rw [hi]; exact hb) hs
    rw [hi] at hm
    simp only [List.map_cons, runFrom]
    rw [stepAll_single cfg beh w k op hs, stepAll_single cfg beh w' k (op.onInst j) (onInst_single op j hs)]
    obtain ⟨r1, r2⟩ := runFrom_relabel cfg beh i j hb ops _ _ (k + 1) hm.1 (fun o ho => hops o (List.mem_cons_of_mem _ ho))
    exact ⟨r1, by rw [hm.2, r2, List.map_append]⟩

/-- **C17 over whole histories — a copy responds to the same inputs with the same callbacks and results.**  Take
    any world in which instance `i` exists and slot `j` is free, copy `i` into `j`, and then make any sequence of
    (single-instance) API calls on the copy.  The copy ends in exactly the state the original reaches when the
    same calls are made on it instead (in the world without the copy), and the two traces are equal event by
    event — the same callbacks with the same observations, the same actions, the same API results — up to the
    instance label; provided the user callbacks treat the two instances alike. -/
theorem C17_history_copy_responds_alike (cfg : Cfg) (beh : Beh) (w : World) (i j k : Nat) (sc : Core)
    (hj : w.get j = none) (hi : w.get i = some sc)
    (hb : ∀ key : Key, key.inst = i → beh (key.withInst j) = beh key)
    (ops : List Op) (hops : ∀ op ∈ ops, op.inst = i ∧ op.single = true) (k' : Nat) :
    Mirrors i j (runFrom cfg beh w k' ops)
      (runFrom cfg beh (stepAll cfg beh w k (.copy j i)).1 k' (ops.map (Op.onInst j))) := by
  have hc := (C17_copy_obsEq cfg beh w k j i sc hj hi).1
  refine runFrom_relabel cfg beh i j hb ops w _ k' ?_ hops
  rw [hc, World.get_put_same, hi]

/-- non-vacuity: two instances interleaved, a copy, a vetoed request; instance 0's path is paired and the
    hypotheses of `C01_history` hold for it -/
example :
    let cfg : Cfg := { n := 3, L := 2, cap := 1 }
    let beh : Beh := fun k => if k.method = .exitGuard ∧ k.op = 4 then [.cancel] else []
    let ops : List Op := [.construct 0 false, .construct 1 false, .immediateChangeTo 0 1, .copy 2 0, .immediateChangeTo 0 2,
                          .immediateChangeTo 1 2, .update 0, .destroy 0]
    sigOf 0 (run cfg beh ops).2 = [(.enter, 255), (.enter, 0), (.exit, 0), (.enter, 1), (.exit, 1), (.exit, 255)] ∧
    sigOf 1 (run cfg beh ops).2 = [(.enter, 255), (.enter, 0), (.exit, 0), (.enter, 2)] ∧
    (∀ src, Op.copy 0 src ∉ ops) := by
  refine ⟨by decide, by decide, ?_⟩
  intro src h
  simp at h

end FFSM2
