import FFSM2.Lemmas.OwnSig
/-!
# C05 — Update/react cycle: fixed callback order, active state only, requests last

`ownSig` lists, in order, which state's own callback each delivery of a trace reached (visible or
not — a state that does not define the callback still receives the library's empty default).
-/
namespace FFSM2
open Step

/-- the three phases of a cycle, before the plan step -/
def phases (env : Env) (pre mid post : Method) : Step :=
  modify (fun s => { s with ts := .none }) ⋙ phase env pre true ⋙ phase env mid true ⋙ phase env post false

/-- **fixed order, exactly once each, active state only**: `pre` on the root then the active state,
    `mid` on the root then the active state, `post` on the active state then the root — where the
    active state is the one that was active when the call began, whatever the callbacks request,
    report or edit in between -/
theorem C05_phase_order (env : Env) (pre mid post : Method) (s : St) :
    ownSig (phases env pre mid post s).2 =
      [(pre, 255), (pre, s.core.active), (mid, 255), (mid, s.core.active), (post, s.core.active), (post, 255)] ∧
    (phases env pre mid post s).1.core.active = s.core.active := by
  unfold phases
  have h1 := stable_phase env pre true
  have h2 := stable_phase env mid true
  have h3 := stable_phase env post false
  constructor
  · rw [ownSig_seq, ownSig_seq, ownSig_seq, ownSig_phase, ownSig_phase, ownSig_phase]
    simp only [Step.seq, Step.modify, ownSig_nil, List.nil_append, if_true, Bool.false_eq_true, if_false]
    rw [(h2 _).1, (h1 _).1]
    rfl
  · simp only [Step.seq, Step.modify]
    rw [(h3 _).1, (h2 _).1, (h1 _).1]

/-- `update()` is the phases, then the plan step, then request processing -/
theorem C05_update_shape (env : Env) :
    update env = phases env .preUpdate .update .postUpdate ⋙ (if env.cfg.plans then planStep env else skip) ⋙ processRequest env ∧
    react env = phases env .preReact .react .postReact ⋙ (if env.cfg.plans then planStep env else skip) ⋙ processRequest env :=
  ⟨rfl, rfl⟩

/-- **requests last**: no guard, exit, enter or reenter runs before every phase callback of the call
    has been delivered (and none during the plan step) -/
theorem C05_requests_last (env : Env) (pre mid post : Method)
    (h1 : pre.isLife = false ∧ pre.isGuard = false) (h2 : mid.isLife = false ∧ mid.isGuard = false)
    (h3 : post.isLife = false ∧ post.isGuard = false) :
    NoLife (prelude env pre mid post) ∧ NoGuard (prelude env pre mid post) := by
  constructor
  · apply silent_prelude methodPred_isLife
    intro m hm
    rcases hm with rfl | rfl | rfl | rfl | rfl
    · exact life_excludes h1.1
    · exact life_excludes h2.1
    · exact life_excludes h3.1
    · exact life_excludes rfl
    · exact life_excludes rfl
  · apply silent_prelude methodPred_isGuard
    intro m hm
    rcases hm with rfl | rfl | rfl | rfl | rfl
    · exact guard_excludes h1.2
    · exact guard_excludes h2.2
    · exact guard_excludes h3.2
    · exact guard_excludes rfl
    · exact guard_excludes rfl

theorem permitted_const (cfg : Cfg) (sid : Nat) (a : Action) : permitted cfg .const sid a = false := by
  cases a <;> simp [permitted]

theorem runActions_const (env : Env) (sid : Nat) (key : Key) (as : List Action) (s : St) :
    (runActions env .const sid key as s).1 = s := by
  induction as generalizing s with
  | nil => rfl
  | cons a as ih =>
    simp only [runActions, permitted_const, Bool.false_eq_true, if_false, Step.seq, skip]
    exact ih s

theorem deliverLayer_query_core (env : Env) (sid : Nat) (cur pend : Tr) (layer : Ancestors.Layer) (s : St) :
    (deliverLayer env .query sid cur pend layer s).1.core = s.core := by
  rw [deliverLayer_eq]
  unfold layerBody
  simp only [Step.seq, emit]
  split
  · have : Method.query.flavour = .const := rfl
    rw [this, runActions_const]
  · rfl

theorem seqList_query_core (env : Env) (sid : Nat) (cur pend : Tr) : ∀ (layers : List Ancestors.Layer) (s : St),
    (seqList (layers.map (deliverLayer env .query sid cur pend)) s).1.core = s.core := by
  intro layers
  induction layers with
  | nil => intro s; rfl
  | cons l ls ih =>
    intro s
    simp only [List.map_cons, seqList, Step.seq]
    rw [ih, deliverLayer_query_core]

/-- **query leaves the machine unchanged** and delivers `query` to the root, then the active state -/
theorem C05_query_readonly (env : Env) (s : St) :
    (query env s).1.core = s.core ∧ ownSig (query env s).2 = [(.query, 255), (.query, s.core.active)] := by
  unfold query
  -- the translated table: `C_::deepQuery` runs the root head first
  simp only [show headFirst .query = true from rfl, if_true]
  have hcore : ∀ sid (s : St), (deliver env .query sid {} {} s).1.core = s.core := by
    intro sid s
    unfold deliver
    simp only [Step.seq, emit]
    exact seqList_query_core env sid {} {} _ _
  constructor
  · simp only [Step.seq]; rw [hcore, hcore]
  · rw [ownSig_seq, ownSig_deliver, ownSig_deliver]; rfl

/-- non-vacuity: a 3-state machine with state 2 active; `preUpdate` of the active state requests a
    transition and reports success: the six phase deliveries still come first and in order -/
example :
    let cfg : Cfg := { n := 3, L := 2, cap := 2 }
    let beh : Beh := fun k => if k.method = .preUpdate ∧ k.sid = 2 then [.changeTo 0, .succeed none] else []
    let env : Env := ⟨cfg, beh, 0, 5⟩
    let s0 : St := { core := { (initCore cfg false) with active := 2 } }
    (ownSig (update env s0).2).take 6 =
      [(.preUpdate, 255), (.preUpdate, 2), (.update, 255), (.update, 2), (.postUpdate, 2), (.postUpdate, 255)] ∧
    (update env s0).1.core.active = 0 := by
  decide

end FFSM2
