import FFSM2.Props.History
import FFSM2.Props.C05
/-!
# C05 over whole histories: what one `update()` / `react()` / `query()` delivers, from any world

* `C05_history_update_order` / `C05_history_react_order` — any world, an active instance whose active state is
  `a`: the own-layer deliveries of the call are exactly `pre` on the root then on `a`, `mid` on the root then on
  `a`, `post` on `a` then on the root — once each, in this order, for the state active **when the call began** —
  followed by deliveries none of which is a phase callback (plan outcome, guards, exit / enter / reenter).
* `C05_history_inactive_rejected` — on an inactive machine the call delivers nothing.
* `C05_history_query` — `query()` delivers `query` to the root then to the active state and leaves the
  instance's core exactly as it was.
-/
namespace FFSM2
open Step

def Method.isPhase : Method → Bool
  | .preUpdate | .update | .postUpdate | .preReact | .react | .postReact | .query => true
  | _ => false

/-- a delivery of one of the update / react / query phase callbacks -/
def Ev.isPhase : Ev → Bool
  | .cb k _ _ => k.method.isPhase
  | _ => false

theorem methodPred_isPhase : MethodPred Ev.isPhase :=
  ⟨fun e h => by cases e <;> simp_all [Ev.isPhase, Ev.isCb], fun k k' _ _ _ _ h => by simp [Ev.isPhase, h]⟩

theorem phase_excl {m : Method} (h : m.isPhase = false) : Excl Ev.isPhase m := by
  intro k _ _ hk
  simp [Ev.isPhase, hk, h]

theorem exclCore_isPhase : ExclCore Ev.isPhase :=
  ⟨phase_excl rfl, phase_excl rfl, phase_excl rfl, phase_excl rfl, phase_excl rfl⟩

/-- a trace without phase deliveries has no phase method in its own-layer signature -/
theorem ownSig_noPhase : ∀ {es : List Ev}, es.filter Ev.isPhase = [] → ∀ x ∈ ownSig es, x.1.isPhase = false
  | [], _, x, hx => by cases hx
  | e :: es, h, x, hx => by
    simp only [List.filter_cons] at h
    split at h
    · cases h
    · rename_i hne
      have hx' : x ∈ ownSig [e] ++ ownSig es := by rw [← ownSig_append]; exact hx
      rcases List.mem_append.mp hx' with h1 | h1
      · cases e with
        | cb k v o =>
          simp only [ownSig, List.filterMap_cons, List.filterMap_nil, ownSigEv] at h1
          by_cases hl : (k.layer == Ancestors.Layer.own) = true
          · simp only [hl, if_true, List.mem_singleton] at h1
            rw [h1]
            simpa [Ev.isPhase] using hne
          · simp [hl] at h1
        | act k a => cases h1
        | log i r => cases h1
        | api i o n ob => cases h1
        | rejected i o n => cases h1
      · exact ownSig_noPhase h x h1

/-- after the three phases nothing of a cycle delivers a phase callback -/
theorem silent_afterPhases (env : Env) :
    Silent Ev.isPhase ((if env.cfg.plans then planStep env else skip) ⋙ processRequest env) := by
  refine Silent.seq ?_ (silentG_processRequest methodPred_isPhase exclCore_isPhase env)
  split
  · exact silent_planStep methodPred_isPhase env (phase_excl rfl) (phase_excl rfl)
  · exact silent_skip _

theorem cycle_order (env : Env) (pre mid post : Method) (s : St)
    (hc : cycle env pre mid post = phases env pre mid post ⋙ (if env.cfg.plans then planStep env else skip) ⋙ processRequest env) :
    ∃ rest, ownSig (cycle env pre mid post s).2 =
        [(pre, 255), (pre, s.core.active), (mid, 255), (mid, s.core.active), (post, s.core.active), (post, 255)] ++ rest ∧
      ∀ x ∈ rest, x.1.isPhase = false := by
  rw [hc]
  refine ⟨ownSig (((if env.cfg.plans then planStep env else skip) ⋙ processRequest env) (phases env pre mid post s).1).2, ?_, ?_⟩
  · have e : (phases env pre mid post ⋙ (if env.cfg.plans then planStep env else skip) ⋙ processRequest env) s =
        (phases env pre mid post ⋙ ((if env.cfg.plans then planStep env else skip) ⋙ processRequest env)) s := by
      simp only [Step.seq, List.append_assoc]
    rw [e, ownSig_seq, (C05_phase_order env pre mid post s).1]
  · exact ownSig_noPhase (silent_afterPhases env _)

/-- **C05 over whole histories — `update()`**: from any world, on an active instance -/
theorem C05_history_update_order (cfg : Cfg) (beh : Beh) (w : World) (k i : Nat) (c : Core)
    (hg : w.get i = some c) (ha : c.active ≠ 255) :
    ∃ rest, ownSig (stepAll cfg beh w k (.update i)).2 =
        [(.preUpdate, 255), (.preUpdate, c.active), (.update, 255), (.update, c.active),
         (.postUpdate, c.active), (.postUpdate, 255)] ++ rest ∧
      ∀ x ∈ rest, x.1.isPhase = false := by
  have hact : (c.active != 255) = true := by simpa using ha
  simp only [stepAll, step, Op.inst, Op.name, hg]
  rw [if_pos hact, onCore_snd, ownSig_append, ownSig_api, List.append_nil]
  exact cycle_order ⟨cfg, beh, i, k⟩ .preUpdate .update .postUpdate { core := c } (C05_update_shape _).1

/-- **C05 over whole histories — `react()`** -/
theorem C05_history_react_order (cfg : Cfg) (beh : Beh) (w : World) (k i : Nat) (c : Core)
    (hg : w.get i = some c) (ha : c.active ≠ 255) :
    ∃ rest, ownSig (stepAll cfg beh w k (.react i)).2 =
        [(.preReact, 255), (.preReact, c.active), (.react, 255), (.react, c.active),
         (.postReact, c.active), (.postReact, 255)] ++ rest ∧
      ∀ x ∈ rest, x.1.isPhase = false := by
  have hact : (c.active != 255) = true := by simpa using ha
  simp only [stepAll, step, Op.inst, Op.name, hg]
  rw [if_pos hact, onCore_snd, ownSig_append, ownSig_api, List.append_nil]
  exact cycle_order ⟨cfg, beh, i, k⟩ .preReact .react .postReact { core := c } (C05_update_shape _).2

/-- **no callback of an inactive machine**: `update()` / `react()` / `query()` on an inactive instance are
    rejected and deliver nothing -/
theorem C05_history_inactive_rejected (cfg : Cfg) (beh : Beh) (w : World) (k i : Nat) (c : Core)
    (hg : w.get i = some c) (ha : c.active = 255) :
    ownSig (stepAll cfg beh w k (.update i)).2 = [] ∧ ownSig (stepAll cfg beh w k (.react i)).2 = [] ∧
    ownSig (stepAll cfg beh w k (.query i)).2 = [] ∧
    (stepAll cfg beh w k (.update i)).1 = w ∧ (stepAll cfg beh w k (.react i)).1 = w ∧ (stepAll cfg beh w k (.query i)).1 = w := by
  have hact : ¬ (c.active != 255) = true := by simp [ha]
  simp only [stepAll, step, Op.inst, Op.name, hg]
  rw [if_neg hact, if_neg hact, if_neg hact]
  exact ⟨rfl, rfl, rfl, rfl, rfl, rfl⟩

/-- **C05 over whole histories — `query()`**: root then active state, and the instance's core is untouched -/
theorem C05_history_query (cfg : Cfg) (beh : Beh) (w : World) (k i : Nat) (c : Core)
    (hg : w.get i = some c) (ha : c.active ≠ 255) :
    ownSig (stepAll cfg beh w k (.query i)).2 = [(.query, 255), (.query, c.active)] ∧
    (stepAll cfg beh w k (.query i)).1.get i = some c := by
  have hact : (c.active != 255) = true := by simpa using ha
  simp only [stepAll, step, Op.inst, Op.name, hg]
  rw [if_pos hact, onCore_snd, onCore_fst, ownSig_append, ownSig_api, List.append_nil, World.get_put_same]
  have h := C05_query_readonly ⟨cfg, beh, i, k⟩ { core := c }
  exact ⟨h.2, by rw [h.1]⟩

/-- non-vacuity: an update whose `preUpdate` requests a transition — the six phase deliveries come first, the
    exit / enter of the transition afterwards -/
example :
    let cfg : Cfg := { n := 3, L := 2, cap := 2 }
    let beh : Beh := fun k => if k.method = .preUpdate ∧ k.sid = 0 then [.changeTo 2] else []
    ownSig (stepAll cfg beh (run cfg beh [.construct 0 false]).1 1 (.update 0)).2 =
      [(.preUpdate, 255), (.preUpdate, 0), (.update, 255), (.update, 0), (.postUpdate, 0), (.postUpdate, 255),
       (.exitGuard, 0), (.entryGuard, 2), (.exit, 0), (.enter, 2)] := by
  decide

end FFSM2
