import FFSM2.Lemmas.ActRecords
/-!
# C16 over whole histories: every action of user code is followed by exactly its record

`C16_history_action_records` — any world, any API call on an instance that has a logger attached (logging compiled in):
wherever a callback performs `changeTo` / `changeWith`, `cancelPendingTransition`, `succeed` or `fail`, the very next
event of the trace is the record of that action for that instance — transition (caller, requested destination),
cancellation (caller), task status (reported state, succeeded / failed).  Records therefore appear exactly once per
action and in the order the actions occur.
-/
namespace FFSM2
open Step

theorem aStep_false (p : Option (Nat × LogRec)) (e : Ev) : (aStep (p, false) e).2 = false := by
  cases p with
  | none =>
    cases e with
    | act k a => simp only [aStep]; split <;> rfl
    | _ => rfl
  | some t =>
    obtain ⟨i, r⟩ := t
    cases e with
    | log j r' => simp [aStep]
    | _ => rfl

theorem foldl_aStep_false : ∀ (es : List Ev) (p : Option (Nat × LogRec)), (es.foldl aStep (p, false)).2 = false
  | [], _ => rfl
  | e :: es, p => by
    rw [List.foldl_cons]
    have h := aStep_false p e
    generalize aStep (p, false) e = st at h
    obtain ⟨q, b⟩ := st
    simp only at h
    rw [h]
    exact foldl_aStep_false es q

/-- what acceptance means, in plain words -/
theorem aclosed_spec {es : List Ev} (h : AClosed es) (pre post : List Ev) (k : Key) (a : Action) (r : LogRec)
    (hs : es = pre ++ Ev.act k a :: post) (hr : actRecord k.sid a = some r) :
    ∃ post', post = Ev.log k.inst r :: post' := by
  unfold AClosed at h
  rw [hs, List.foldl_append, List.foldl_cons] at h
  generalize List.foldl aStep (none, true) pre = st at h
  obtain ⟨p, ok⟩ := st
  have h1 : ∃ ok', aStep (p, ok) (Ev.act k a) = (some (k.inst, r), ok') ∨ aStep (p, ok) (Ev.act k a) = (none, false) := by
    cases p with
    | none => exact ⟨ok, Or.inl (by simp only [aStep, hr])⟩
    | some t => obtain ⟨i, r0⟩ := t; exact ⟨false, Or.inr rfl⟩
  obtain ⟨ok', h1 | h1⟩ := h1
  · rw [h1] at h
    cases post with
    | nil => simp at h
    | cons e post' =>
      rw [List.foldl_cons] at h
      cases e with
      | log j r' =>
        simp only [aStep] at h
        by_cases hm : (ok' && k.inst == j && r == r') = true
        · simp only [Bool.and_eq_true, beq_iff_eq] at hm
          exact ⟨post', by rw [hm.1.2, hm.2]⟩
        · have hf : (ok' && k.inst == j && r == r') = false := by simpa using hm
          rw [hf] at h
          have := foldl_aStep_false post' none
          rw [h] at this; cases this
      | cb k' v o =>
        have : aStep (some (k.inst, r), ok') (Ev.cb k' v o) = (none, false) := rfl
        rw [this] at h; have := foldl_aStep_false post' none; rw [h] at this; cases this
      | act k' a' =>
        have : aStep (some (k.inst, r), ok') (Ev.act k' a') = (none, false) := rfl
        rw [this] at h; have := foldl_aStep_false post' none; rw [h] at this; cases this
      | api j o n ob =>
        have : aStep (some (k.inst, r), ok') (Ev.api j o n ob) = (none, false) := rfl
        rw [this] at h; have := foldl_aStep_false post' none; rw [h] at this; cases this
      | rejected j o n =>
        have : aStep (some (k.inst, r), ok') (Ev.rejected j o n) = (none, false) := rfl
        rw [this] at h; have := foldl_aStep_false post' none; rw [h] at this; cases this
  · rw [h1] at h
    have := foldl_aStep_false post none
    rw [h] at this; cases this

theorem apiStep_aclosed {cfg : Cfg} {w : World} {env : Env} {tag : ApiTag} {slot : Option Core} {c : Core} {f : Step}
    (h : ApiStep cfg w env tag slot c f) (hl : env.cfg.logging = true) (hc : c.logger = true) : AClosed (f { core := c }).2 := by
  cases h with
  | constructManual => exact aclosed_nil
  | constructAuto => exact (lclosed_initialEnter env _).2 hl hc
  | enter => exact (lclosed_initialEnter env _).2 hl hc
  | exit => exact (lclosed_finalExit env _).2 hl hc
  | update => exact (lclosed_cycle env _ _ _ _).2 hl hc
  | react => exact (lclosed_cycle env _ _ _ _).2 hl hc
  | query => exact (lclosed_query env _).2 hl hc
  | change => exact (lclosed_extChange env _ _ _).2 hl hc
  | immediate => exact ((LClosed.seq (lclosed_extChange env _ _) (lclosed_processRequest env)) _).2 hl hc
  | status => exact (lclosed_extStatus env _ _ _).2 hl hc
  | planAppend c o d p =>
    cases p <;> simp only [applyAction] <;> split <;> exact aclosed_nil
  | planEdit c a ha =>
    cases a with
    | planClear => exact aclosed_nil
    | planRemove m => exact aclosed_nil
    | planAppend o d p => cases ha
    | changeTo d => exact aclosed_noAct (noAct_logEv env _ _)
    | changeWith d p => exact aclosed_noAct (noAct_logEv env _ _)
    | cancel => exact aclosed_noAct (noAct_logEv env _ _)
    | succeed id => exact aclosed_noAct (noAct_logEv env _ _)
    | fail id => exact aclosed_noAct (noAct_logEv env _ _)
  | load => exact (lclosed_load env _ _).2 hl hc
  | replayEnter => exact (lclosed_replayEnter env _ _).2 hl hc
  | replayClear => exact aclosed_nil
  | replayTransition => exact (lclosed_replayTransition env _ _).2 hl hc
  | attachLogger => exact aclosed_nil

theorem aclosed_single {e : Ev} (h : e.isAct = false) : AClosed [e] :=
  aclosed_noAct (by intro x hx; simp only [List.mem_singleton] at hx; rw [hx]; exact h)

/-- one API call (other than a construction) from any world, on an instance whose logger is attached when the call begins -/
theorem stepAll_aclosed (cfg : Cfg) (hl : cfg.logging = true) (beh : Beh) (w : World) (k : Nat) (op : Op)
    (hlog : ∀ c, w.get op.inst = some c → c.logger = true) (hnc : op.tag ≠ some .construct) :
    AClosed (stepAll cfg beh w k op).2 := by
  have h := stepAll_shape cfg beh w k op
  generalize stepAll cfg beh w k op = r at h
  cases h with
  | copy src sc _ h1 h2 => exact aclosed_single rfl
  | step op' hs hd =>
    have hnc' : op'.tag ≠ some .construct := by
      rcases hd with rfl | ⟨_, h2 | h2⟩
      · exact hnc
      · rw [h2]; intro e; cases e
      · rw [h2]; intro e; cases e
    cases hs with
    | rejected name => exact aclosed_single rfl
    | call tag slot c f ret name htag hget hf =>
      rw [onCore_snd]
      refine aclosed_append (apiStep_aclosed (env := ⟨cfg, beh, op.inst, k⟩) hf hl ?_) (aclosed_single rfl)
      cases hf with
      | constructManual lg hm => exact absurd htag hnc'
      | constructAuto lg hm => exact absurd htag hnc'
      | _ => exact hlog _ hget
    | destroyManual c name _ hm hget => exact aclosed_single rfl
    | destroyAuto c name _ hm hget =>
      exact aclosed_append ((lclosed_finalExit ⟨cfg, beh, op.inst, k⟩ _).2 hl (hlog _ hget)) (aclosed_single rfl)
    | save c name o hget => exact aclosed_single rfl

/-- construction with a logger -/
theorem construct_aclosed (cfg : Cfg) (hl : cfg.logging = true) (beh : Beh) (w : World) (k i : Nat) :
    AClosed (stepAll cfg beh w k (.construct i true)).2 := by
  simp only [stepAll, step, Op.inst, Op.name]
  cases hg : w.get i with
  | some c => exact aclosed_single rfl
  | none =>
    dsimp only
    split
    · rw [onCore_snd]; exact aclosed_append aclosed_nil (aclosed_single rfl)
    · rw [onCore_snd]
      exact aclosed_append ((lclosed_initialEnter ⟨cfg, beh, i, k⟩ _).2 hl (by simp [initCore, hl])) (aclosed_single rfl)

/-- **C16 over whole histories — every action of user code is followed by exactly its record.**  Any world, any call on
    an instance whose logger is attached (or the construction of an instance with a logger): wherever the trace of the
    call shows a callback performing a request, a cancellation or a task status report, the next event is that action's
    record for that instance. -/
theorem C16_history_action_records (cfg : Cfg) (hl : cfg.logging = true) (beh : Beh) (w : World) (k0 : Nat) (op : Op)
    (hlog : ∀ c, w.get op.inst = some c → c.logger = true) (hnc : op.tag ≠ some .construct)
    (pre post : List Ev) (k : Key) (a : Action) (r : LogRec)
    (hs : (stepAll cfg beh w k0 op).2 = pre ++ Ev.act k a :: post) (hr : actRecord k.sid a = some r) :
    ∃ post', post = Ev.log k.inst r :: post' :=
  aclosed_spec (stepAll_aclosed cfg hl beh w k0 op hlog hnc) pre post k a r hs hr

theorem C16_history_action_records_construct (cfg : Cfg) (hl : cfg.logging = true) (beh : Beh) (w : World) (k0 i : Nat)
    (pre post : List Ev) (k : Key) (a : Action) (r : LogRec)
    (hs : (stepAll cfg beh w k0 (.construct i true)).2 = pre ++ Ev.act k a :: post) (hr : actRecord k.sid a = some r) :
    ∃ post', post = Ev.log k.inst r :: post' :=
  aclosed_spec (construct_aclosed cfg hl beh w k0 i) pre post k a r hs hr

/-- non-vacuity: a logged update whose callback requests a transition and reports success: both actions are followed
    by their records, and the automaton accepts the whole trace -/
example :
    let cfg : Cfg := { n := 2, L := 2, cap := 1, logging := true, plans := true }
    let beh : Beh := fun k => if k.method = .update ∧ k.sid = 0 then [.changeTo 1, .succeed none] else []
    let es := (run cfg beh [.construct 0 true, .update 0]).2
    (es.filter Ev.isAct).length = 2 ∧ es.foldl aStep (none, true) = (none, true) := by
  decide

end FFSM2
