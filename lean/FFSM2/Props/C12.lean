import FFSM2.Props.C13
import FFSM2.Props.C01
/-!
# C12 — Serialization round-trips the activity state and is canonical

Built on the bit-stream theorems of C13 (`save`/`load` call the literal `write<N>`/`read<N>` ports)
and on the serial-width definitions translated from the source (`Gen.serialBits`, `Gen.widthBits`).
-/
namespace FFSM2
open Step BitStream

theorem widthBits_pos {n : Nat} (hn : 1 ≤ n) (hn2 : n ≤ 255) : 1 ≤ Gen.widthBits n ∧ Gen.widthBits n ≤ 8 := by
  have h := C13_bitWidth_spec n (by omega)
  unfold Gen.widthBits
  have hb : Gen.bitWidth n ≠ 0 := by
    intro h0; rw [h0] at h; simp at h; omega
  have hp : 2 ^ (Gen.bitWidth n - 1) ≤ n := by
    rcases h.2 with h0 | h0
    · exact absurd h0 hb
    · exact h0
  refine ⟨by omega, ?_⟩
  have h8 : Gen.bitWidth n - 1 < 8 := by
    apply Nat.lt_of_not_ge
    intro hge
    have : 2 ^ 8 ≤ 2 ^ (Gen.bitWidth n - 1) := Nat.pow_le_pow_right (by decide) hge
    omega
  omega

/-- **the buffer capacity suffices for every state count**: activity bit + index bits ≤ 9 ≤ capacity -/
theorem C12_bits_suffice (cfg : Cfg) (h : cfg.WF) :
    serialBits cfg = 1 + Gen.widthBits cfg.n ∧ serialBits cfg ≤ 9 ∧ ∀ a, a < cfg.n → a < 2 ^ Gen.widthBits cfg.n := by
  have hw := widthBits_pos h.n_pos h.n_le
  refine ⟨rfl, ?_, fun a ha => C13_bitWidth_suffices cfg.n h.n_le a ha⟩
  simp only [serialBits, Gen.serialBits, Gen.activeBits]; omega

/-- what `save` writes for an active machine, in terms of the stream: invariant kept, cursor =
    declared capacity, content = `1 + 2·active` -/
theorem save_active_spec (cfg : Cfg) (h : cfg.WF) (c : Core) (ha : c.active < cfg.n) :
    let buf := save cfg c
    StreamInv (serialBits cfg) buf (serialBits cfg) ∧ bitsOf buf = 1 + 2 * c.active := by
  intro buf
  have hw := widthBits_pos h.n_pos h.n_le
  have hcap : serialBits cfg = 1 + Gen.widthBits cfg.n := rfl
  have hne : ¬ (cfg.manual && c.active == 255) = true := by
    have : c.active ≠ 255 := by have := h.n_le; omega
    simp [this]
  have inv0 := C13_init (serialBits cfg) (by rw [hcap]; omega)
  obtain ⟨b1, c1, inv1⟩ := C13_write_spec (v := 1) inv0 (Nat.le_refl 1) (by decide) (by decide) (by rw [hcap]; omega)
  have hv : c.active < 2 ^ Gen.widthBits cfg.n := C13_bitWidth_suffices cfg.n h.n_le _ ha
  rw [c1] at inv1
  obtain ⟨b2, c2, inv2⟩ := C13_write_spec (v := c.active) inv1 hw.1 (by omega) hv (by rw [hcap]; omega)
  have hbuf : buf = (write (Gen.widthBits cfg.n) (write 1 (clearBuf (serialBits cfg)) 0 1).1 (0 + 1) c.active).1 := by
    show save cfg c = _
    unfold save
    rw [if_neg hne]
    simp only [c1]
  rw [hbuf]
  refine ⟨?_, ?_⟩
  · rw [c2] at inv2
    have : 0 + 1 + Gen.widthBits cfg.n = serialBits cfg := by rw [hcap]
    rw [this] at inv2; exact inv2
  · rw [b2, b1]
    simp [clearBuf, bitsOf_replicate_zero, Nat.mul_comm]

/-- decoding a saved active machine: activity bit 1, then the active index -/
theorem load_decode_active (cfg : Cfg) (h : cfg.WF) (c : Core) (ha : c.active < cfg.n) :
    read 1 (save cfg c) 0 = (1, 1) ∧ read (Gen.widthBits cfg.n) (save cfg c) 1 = (c.active, 1 + Gen.widthBits cfg.n) := by
  obtain ⟨inv, hb⟩ := save_active_spec cfg h c ha
  have hw := widthBits_pos h.n_pos h.n_le
  have hv : c.active < 2 ^ Gen.widthBits cfg.n := C13_bitWidth_suffices cfg.n h.n_le _ ha
  rw [C13_read_spec inv.bytes (by decide), C13_read_spec inv.bytes (by omega), hb]
  constructor
  · simp
  · simp only [Nat.pow_one]
    have : (1 + 2 * c.active) / 2 = c.active := by omega
    rw [this, Nat.mod_eq_of_lt hv]

/-- a saved inactive (manual) machine: a single 0 bit -/
theorem load_decode_inactive (cfg : Cfg) (h : cfg.WF) (c : Core) (hm : cfg.manual = true) (ha : c.active = 255) :
    read 1 (save cfg c) 0 = (0, 1) := by
  have hw := widthBits_pos h.n_pos h.n_le
  have hcap : serialBits cfg = 1 + Gen.widthBits cfg.n := rfl
  have inv0 := C13_init (serialBits cfg) (by rw [hcap]; omega)
  obtain ⟨b1, c1, inv1⟩ := C13_write_spec (v := 0) inv0 (Nat.le_refl 1) (by decide) (by decide) (by rw [hcap]; omega)
  have hbuf : save cfg c = (write 1 (clearBuf (serialBits cfg)) 0 0).1 := by simp [save, hm, ha]
  rw [hbuf, C13_read_spec inv1.bytes (by decide), b1]
  simp [clearBuf, bitsOf_replicate_zero]

/-- **round trip, active saver**: whatever the loader's own state (active in any state with any
    request / plan / history outstanding, or — manual — inactive), after `load(save(saver))` the
    loader's active state is the saver's; no guard is consulted -/
theorem C12_roundtrip_active (env : Env) (h : env.cfg.WF) (saver : Core) (ha : saver.active < env.cfg.n) (s : St)
    (hs : s.core.active ≠ 255 ∨ env.cfg.manual = true) :
    (load env (save env.cfg saver) s).1.core.active = saver.active ∧
    (load env (save env.cfg saver) s).2.filter Ev.isGuard = [] := by
  refine ⟨?_, noGuard_load env _ s⟩
  obtain ⟨d1, d2⟩ := load_decode_active env.cfg h saver ha
  unfold load
  simp only [d1, d2, show ((1:Nat) != 0) = true from by decide, if_true]
  by_cases hact : s.core.active = 255
  · have hm : env.cfg.manual = true := by
      rcases hs with h1 | h1
      · exact absurd hact h1
      · exact h1
    simp only [hact, bne_self_eq_false, Bool.false_eq_true, if_false, hm, if_true]
    simp only [Step.seq, modifyCore]
    rw [(deepEnter_spec env {} _).1]
  · have : (s.core.active != 255) = true := by simpa using hact
    simp only [this, if_true]
    unfold loadActive
    simp only [Step.seq, modifyCore]
    rw [(changeToRequested_spec env {} _).1]
    cases env.cfg.history <;> cases env.cfg.plans <;> simp [planDataClear]

/-- **round trip, inactive saver** (manual activation): an active loader performs its final exit, an
    inactive one stays inactive -/
theorem C12_roundtrip_inactive (env : Env) (h : env.cfg.WF) (hm : env.cfg.manual = true) (saver : Core)
    (ha : saver.active = 255) (s : St) :
    (load env (save env.cfg saver) s).1.core.active = 255 := by
  have d := load_decode_inactive env.cfg h saver hm ha
  unfold load
  simp only [d, show ((0:Nat) != 0) = false from by decide, Bool.false_eq_true, if_false, hm, Bool.true_and]
  by_cases hact : s.core.active = 255
  · simp [hact]
  · have : (s.core.active != 255) = true := by simpa using hact
    simp only [this, if_true]
    exact (C01_finalExit env s).1

/-- **load performs exactly the lifecycle needed**: `reenter` when the loader is already in the
    saver's state, `exit(old); enter(new)` otherwise (active → active case) -/
theorem C12_load_lifecycle (env : Env) (h : env.cfg.WF) (saver : Core) (ha : saver.active < env.cfg.n) (s : St)
    (hact : s.core.active ≠ 255) :
    sig (load env (save env.cfg saver) s).2 =
      if saver.active != s.core.active then [(.exit, s.core.active), (.enter, saver.active)]
      else [(.reenter, s.core.active)] := by
  obtain ⟨d1, d2⟩ := load_decode_active env.cfg h saver ha
  unfold load
  simp only [d1, d2, show ((1:Nat) != 0) = true from by decide, if_true]
  have : (s.core.active != 255) = true := by simpa using hact
  simp only [this, if_true]
  unfold loadActive
  simp only [Step.seq, modifyCore, sig_append, sig_nil, List.nil_append]
  rw [(changeToRequested_spec env {} _).2.2]
  cases env.cfg.history <;> cases env.cfg.plans <;> simp [planDataClear]

/-- **save does not modify the machine** (it is a function of the configuration and the core and
    returns only bytes) and **writes nothing beyond the declared capacity**: the cursor ends at
    `SERIAL_BITS`, every byte index stays inside the `BYTE_COUNT`-byte buffer -/
theorem C12_save_within_capacity (cfg : Cfg) (h : cfg.WF) (c : Core) (ha : c.active < cfg.n) :
    (save cfg c).length = byteCount (serialBits cfg) ∧ BytesOk (save cfg c) ∧
    bitsOf (save cfg c) < 2 ^ serialBits cfg := by
  obtain ⟨inv, _⟩ := save_active_spec cfg h c ha
  exact ⟨inv.length, inv.bytes, inv.tail⟩

theorem bitsOf_injective : ∀ {a b : List Nat}, BytesOk a → BytesOk b → a.length = b.length → bitsOf a = bitsOf b → a = b := by
  intro a
  induction a with
  | nil => intro b _ _ hl _; cases b <;> simp_all
  | cons x xs ih =>
    intro b ha hb hl he
    cases b with
    | nil => simp at hl
    | cons y ys =>
      have ⟨hx, hxs⟩ := bytesOk_cons.mp ha
      have ⟨hy, hys⟩ := bytesOk_cons.mp hb
      simp only [bitsOf] at he
      have hxy : x = y := by omega
      have : bitsOf xs = bitsOf ys := by omega
      rw [hxy, ih hxs hys (by simpa using hl) this]

/-- **canonical**: two (active) machines produce equal buffers if and only if their active states
    are equal — whatever else differs (requests, plans, history, task reports) -/
theorem C12_canonical (cfg : Cfg) (h : cfg.WF) (c1 c2 : Core) (h1 : c1.active < cfg.n) (h2 : c2.active < cfg.n) :
    save cfg c1 = save cfg c2 ↔ c1.active = c2.active := by
  obtain ⟨i1, b1⟩ := save_active_spec cfg h c1 h1
  obtain ⟨i2, b2⟩ := save_active_spec cfg h c2 h2
  constructor
  · intro e
    have : bitsOf (save cfg c1) = bitsOf (save cfg c2) := by rw [e]
    rw [b1, b2] at this; omega
  · intro e
    apply bitsOf_injective i1.bytes i2.bytes (by rw [i1.length, i2.length])
    rw [b1, b2, e]

/-- … and an inactive (manual) machine never collides with an active one -/
theorem C12_canonical_inactive (cfg : Cfg) (h : cfg.WF) (hm : cfg.manual = true) (c1 c2 : Core)
    (h1 : c1.active = 255) (h2 : c2.active < cfg.n) : save cfg c1 ≠ save cfg c2 := by
  intro e
  have d1 := load_decode_inactive cfg h c1 hm h1
  have d2 := (load_decode_active cfg h c2 h2).1
  rw [e, d2] at d1
  cases d1

/-- non-vacuity: 200 states, state 133 active: two bytes `0B 01`, loader in state 5 ends in 133 -/
example :
    let cfg : Cfg := { n := 200, L := 1, cap := 1 }
    save cfg { active := 133 } = [0x0B, 0x01] ∧
    (load ⟨cfg, fun _ => [], 0, 0⟩ (save cfg { active := 133 }) { core := { active := 5 } }).1.core.active = 133 := by
  decide

end FFSM2
