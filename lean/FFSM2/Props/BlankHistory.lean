import FFSM2.Props.History
import FFSM2.Props.C12
/-!
# C01 — a deactivated machine keeps nothing of its previous life

`Blank cfg c`: inactive, no request waiting, and — for the compiled-in features — no task, no `planExists`, no
success / failure report, no accumulated status, no recorded transition.  This is what the final exit leaves behind
(`C01_finalExit_blank`), whatever the machine held when it was stopped and whatever its callbacks did during the
exit; hence after `exit()` from any world (`C01_history_exit_blank`) and after `load()` of an inactive machine's
buffer (`C12_history_load_inactive_blank`).  A freshly constructed manual machine is blank too (`blank_init`), so a
restarted machine starts from where a new one starts.
-/
namespace FFSM2
open Step

structure Blank (cfg : Cfg) (c : Core) : Prop where
  active : c.active = 255
  requested : c.requested = 255
  request : c.request.valid = false
  plan : cfg.plans = true → c.plan = [] ∧ c.planExists = false ∧ (∀ b ∈ c.succ, b = false) ∧ (∀ b ∈ c.fail, b = false) ∧
    c.subStatus = Status.none
  prev : cfg.history = true → c.prev.valid = false

theorem blank_init (cfg : Cfg) (lg : Bool) : Blank cfg (initCore cfg lg) := by
  refine ⟨rfl, rfl, rfl, fun _ => ⟨rfl, rfl, ?_, ?_, rfl⟩, fun _ => rfl⟩
  · intro b hb; exact (List.mem_replicate.mp hb).2
  · intro b hb; exact (List.mem_replicate.mp hb).2

theorem mem_map_false {l : List Bool} {b : Bool} (h : b ∈ l.map (fun _ => false)) : b = false := by
  obtain ⟨_, _, rfl⟩ := List.mem_map.mp h
  rfl

/-- **the final exit leaves a blank machine** — for every state it is run from and every behaviour of the
    callbacks it delivers -/
theorem C01_finalExit_blank (env : Env) (s : St) : Blank env.cfg (finalExit env s).1.core := by
  unfold finalExit
  simp only [Step.seq, modifyCore]
  generalize (deepExit env {} s).1.core = c
  have hreq : ∀ t : Tr, t.clear.valid = false := fun t => by simp [Tr.clear, Tr.valid]
  cases hp : env.cfg.plans <;> cases hh : env.cfg.history <;>
    simp only [Bool.false_eq_true, if_false, if_true]
  · exact ⟨rfl, rfl, hreq _, (fun h => by rw [hp] at h; cases h), (fun h => by rw [hh] at h; cases h)⟩
  · exact ⟨rfl, rfl, hreq _, (fun h => by rw [hp] at h; cases h), (fun _ => hreq _)⟩
  · exact ⟨rfl, rfl, hreq _,
      (fun _ => ⟨rfl, rfl, (fun b hb => mem_map_false hb), (fun b hb => mem_map_false hb), rfl⟩),
      (fun h => by rw [hh] at h; cases h)⟩
  · exact ⟨rfl, rfl, hreq _,
      (fun _ => ⟨rfl, rfl, (fun b hb => mem_map_false hb), (fun b hb => mem_map_false hb), rfl⟩),
      (fun _ => hreq _)⟩

/-- **C01 over whole histories — `exit()`**: from any world, the stopped instance is blank -/
theorem C01_history_exit_blank (cfg : Cfg) (beh : Beh) (w : World) (k i : Nat) (c c' : Core)
    (hg : w.get i = some c) (hm : cfg.manual = true) (ha : c.active ≠ 255)
    (hget : (stepAll cfg beh w k (.exit i)).1.get i = some c') : Blank cfg c' := by
  have hcond : (cfg.manual && (c.active != 255)) = true := by simp [hm, ha]
  simp only [stepAll, step, Op.inst, Op.name, hg] at hget
  rw [if_pos hcond, onCore_fst, World.get_put_same] at hget
  cases hget
  exact C01_finalExit_blank ⟨cfg, beh, i, k⟩ { core := c }

/-- **C12 over whole histories — loading an inactive machine's buffer** (manual activation, active loader) leaves
    the loader blank: nothing of its previous life — request, plan, reports, recorded transition — survives -/
theorem C12_history_load_inactive_blank (cfg : Cfg) (hwf : cfg.WF) (beh : Beh) (w : World) (k i src : Nat) (c sc c' : Core)
    (hi : w.get i = some c) (hs : w.get src = some sc)
    (hser : cfg.serialization = true) (hm : cfg.manual = true) (ha : c.active ≠ 255) (hsa : sc.active = 255)
    (hget : (stepAll cfg beh w k (.load i src)).1.get i = some c') : Blank cfg c' := by
  have hcond : (cfg.serialization && (cfg.manual || (c.active != 255 && sc.active != 255))) = true := by
    simp [hser, hm]
  have hact : (c.active != 255) = true := by simpa using ha
  have d := load_decode_inactive cfg hwf sc hm hsa
  have hl : load ⟨cfg, beh, i, k⟩ (save cfg sc) { core := c } = finalExit ⟨cfg, beh, i, k⟩ { core := c } := by
    unfold load
    simp only [d, show ((0:Nat) != 0) = false from by decide, Bool.false_eq_true, if_false, hm, Bool.true_and, hact, if_true]
  simp only [stepAll, step, Op.inst, Op.name, hi, hs] at hget
  rw [if_pos hcond, onCore_fst, World.get_put_same, hl] at hget
  cases hget
  exact C01_finalExit_blank ⟨cfg, beh, i, k⟩ { core := c }

/-- non-vacuity: a machine stopped while it holds a request, a plan and a report is blank afterwards -/
example :
    let cfg : Cfg := { n := 3, L := 2, cap := 2, manual := true, plans := true, history := true }
    let beh : Beh := fun _ => []
    let w := (run cfg beh [.construct 0 false, .enter 0, .immediateChangeTo 0 1, .planAppend 0 1 2 none, .succeed 0 1, .changeTo 0 2, .exit 0]).1
    (w.get 0).map (·.active) = some 255 ∧ (w.get 0).map (·.request.valid) = some false ∧
    (w.get 0).map (·.plan.length) = some 0 ∧ (w.get 0).map (·.planExists) = some false ∧
    (w.get 0).map (·.succ) = some [false, false, false] ∧ (w.get 0).map (·.prev.valid) = some false := by
  decide

end FFSM2
