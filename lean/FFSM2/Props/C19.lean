import FFSM2.Props.C16
/-!
# C19 — Feature switches are orthogonal; the shipped single header equals the sources   (partial)

"Compiles under every switch combination / standard / compiler" and "the shipped header is the
amalgamation of the sources" are facts about files and compilers: they are *executed* by the check
(256+1 combinations, `tools/join.py` byte-compare) and cannot be theorems about a model.  What the
model can carry is feature neutrality; these theorems state it for the switches that have model
counterparts.  `STRUCTURE_REPORT`, `DEBUG_STATE_TYPE` and `DISABLE_TYPEINDEX` add no behaviour to the
library (a `TYPE` member only) and have nothing to model; they are covered by the executed
cross-configuration trace equality.
-/
namespace FFSM2
open Step

/-- **logging**: a program that never looks at log records behaves identically with the log interface
    compiled in and a logger attached, compiled in without a logger, or compiled out (= C16) -/
theorem C19_neutral_logging (env : Env) : Blind (update env) ∧ Blind (react env) ∧ Blind (initialEnter env) ∧ Blind (finalExit env) :=
  ⟨blind_cycle env _ _ _, blind_cycle env _ _ _, blind_initialEnter env, blind_finalExit env⟩

/-- **plans**: with the feature enabled but no task ever appended and no succeed/fail ever reported
    (nothing outstanding, `planExists = false`), the plan step is a no-op: it delivers nothing and
    leaves plan and request alone — so the cycle is `phases ⋙ processRequest`, exactly what a build
    without the feature runs -/
theorem C19_neutral_plans (env : Env) (s : St) (hp : s.core.planExists = false) :
    (planStep env s).2 = [] ∧ (planStep env s).1.core.request = s.core.request ∧
    (planStep env s).1.core.plan = s.core.plan ∧ (planStep env s).1.core.active = s.core.active := by
  have hc : (s.core.subStatus.or (stateStatus s.core) != Status.none && s.core.planExists) = false := by simp [hp]
  simp only [planStep, hc, Bool.false_eq_true, if_false]
  exact ⟨trivial, trivial, trivial, trivial⟩

/-- **transition history**: nothing in request processing reads `previousTransition`: the outcome
    (`C02_outcome`) is a function of the rounds and the registry only; enabling the feature only adds
    the final store -/
theorem C19_neutral_history (env : Env) (cur : Tr) (s : St) :
    (finishProcessing env cur s).1.core.active = s.core.active ∧
    (finishProcessing env cur s).1.core.request = s.core.request ∧
    (finishProcessing env cur s).1.core.plan = s.core.plan ∧
    (finishProcessing env cur s).2 = [] := ⟨rfl, rfl, rfl, rfl⟩

/-- **serialization**: `save` is a pure function returning bytes; a program that never calls
    `save`/`load` cannot observe the feature -/
theorem C19_neutral_serialization (cfg : Cfg) (beh : Beh) (w : World) (k i : Nat) (c : Core) (hw : w.get i = some c)
    (hs : cfg.serialization = true) (ha : cfg.manual = true ∨ c.active ≠ 255) :
    (step cfg beh w k (.save i)).1 = w := by
  have : (cfg.manual || c.active != 255) = true := by
    rcases ha with h | h
    · simp [h]
    · simp [h]
  simp [step, hw, hs, this, Op.inst]

end FFSM2
