import FFSM2.Lemmas.OwnSig
/-!
# C08 — Plan tasks fire in order, only for the succeeded active state, and only once
# C09 — planSucceeded / planFailed are delivered exactly when warranted   (shared plan-step lemmas)

`firePlan` is the loop of `FullControlT::updatePlan` (SUCCESS branch); `firedOf` is its ghost view:
the tasks it fires, in order.
-/
namespace FFSM2
open Step

/-- ghost: the tasks `firePlan` fires, given the success bit of the active state as the loop sees it -/
def firedOf : List Task → (active : Nat) → (succBit : Bool) → List Task
  | [], _, _ => []
  | t :: ts, a, b =>
    if t.origin == a then
      if b then t :: firedOf ts a (if t.origin == t.dest then false else b)
      else firedOf ts a b
    else []

/-- ghost: the tasks `firePlan` keeps -/
def keptOf : List Task → (active : Nat) → (succBit : Bool) → List Task
  | [], _, _ => []
  | t :: ts, a, b =>
    if t.origin == a then
      if b then keptOf ts a (if t.origin == t.dest then false else b)
      else t :: keptOf ts a b
    else t :: ts

theorem getBit_setBit_self (l : List Bool) (i : Nat) (v : Bool) (h : i < l.length) : getBit (setBit l i v) i = v := by
  simp [getBit, setBit, List.getD_eq_getElem?_getD, h]

/-- `firePlan` computes exactly `keptOf` / `firedOf`; the registry is untouched; the outstanding
    request afterwards is the last fired task (origin = the task's origin, payload = the task's) -/
theorem firePlan_spec (env : Env) : ∀ (tasks : List Task) (s : St) (clr : List Nat),
    s.core.active < s.core.succ.length →
    (firePlan env tasks s clr).1.2.1 = keptOf tasks s.core.active (getBit s.core.succ s.core.active) ∧
    (firePlan env tasks s clr).1.1.core.active = s.core.active ∧
    (firePlan env tasks s clr).1.1.core.plan = s.core.plan ∧
    (firePlan env tasks s clr).1.1.core.request =
      (match (firedOf tasks s.core.active (getBit s.core.succ s.core.active)).getLast? with
       | some t => ⟨t.origin, t.dest, t.payload⟩
       | none => s.core.request) := by
  intro tasks
  induction tasks with
  | nil => intro s clr _; simp [firePlan, keptOf, firedOf]
  | cons t ts ih =>
    intro s clr hlen
    simp only [firePlan, keptOf, firedOf, ctlIsActive]
    by_cases ho : (s.core.active == t.origin) = true
    · have ho' : t.origin = s.core.active := by simpa using (beq_iff_eq.mp ho).symm
      have ho'' : (t.origin == s.core.active) = true := by simp [ho']
      simp only [ho, ho'', if_true]
      by_cases hb : getBit s.core.succ t.origin = true
      · have hb' : getBit s.core.succ s.core.active = true := by rw [← ho']; exact hb
        simp only [hb, hb', if_true]
        by_cases hc : (t.origin == t.dest) = true
        · simp only [hc, if_true]
          have hlen' : s.core.active < (setBit s.core.succ t.origin false).length := by simp [setBit]; exact hlen
          obtain ⟨h1, h2, h3, h4⟩ := ih
            { s with core := { ({ s.core with request := ⟨t.origin, t.dest, t.payload⟩ } : Core) with
                                succ := setBit s.core.succ t.origin false } } clr hlen'
          have hbit : getBit (setBit s.core.succ t.origin false) s.core.active = false := by
            rw [← ho']; exact getBit_setBit_self _ _ _ (by rw [ho']; exact hlen)
          simp only at h1 h2 h3 h4
          rw [hbit] at h1 h4
          refine ⟨h1, h2, h3, ?_⟩
          rw [h4]
          cases hl : (firedOf ts s.core.active false).getLast? with
          | none =>
            have : firedOf ts s.core.active false = [] := by
              cases hf : firedOf ts s.core.active false with
              | nil => rfl
              | cons x xs => rw [hf] at hl; simp at hl
            simp [this]
          | some x => simp [List.getLast?_cons, hl]
        · have hc' : (t.origin == t.dest) = false := by simpa using hc
          simp only [hc', Bool.false_eq_true, if_false]
          obtain ⟨h1, h2, h3, h4⟩ := ih
            { s with core := { s.core with request := ⟨t.origin, t.dest, t.payload⟩ } } (t.origin :: clr) hlen
          simp only at h1 h2 h3 h4
          rw [hb'] at h1 h4
          refine ⟨h1, h2, h3, ?_⟩
          rw [h4]
          cases hl : (firedOf ts s.core.active true).getLast? with
          | none =>
            have : firedOf ts s.core.active true = [] := by
              cases hf : firedOf ts s.core.active true with
              | nil => rfl
              | cons x xs => rw [hf] at hl; simp at hl
            simp [this]
          | some x => simp [List.getLast?_cons, hl]
      · have hb0 : getBit s.core.succ t.origin = false := by simpa using hb
        have hb' : getBit s.core.succ s.core.active = false := by rw [← ho']; exact hb0
        simp only [hb0, hb', Bool.false_eq_true, if_false]
        obtain ⟨h1, h2, h3, h4⟩ := ih s clr hlen
        rw [hb'] at h1 h4
        exact ⟨by rw [h1], h2, h3, h4⟩
    · have ho' : (s.core.active == t.origin) = false := by simpa using ho
      have ho'' : (t.origin == s.core.active) = false := by
        cases h : (t.origin == s.core.active)
        · rfl
        · have := beq_iff_eq.mp h; rw [this] at ho'; simp at ho'
      simp [ho', ho'']

/-- **only for the active state, only with its success outstanding, never past a task of another
    origin**: every fired task has the active state as origin, lies in the front run of such tasks,
    and nothing fires unless that state's success report is outstanding -/
theorem C08_fire_sound (tasks : List Task) (a : Nat) (b : Bool) :
    (∀ t ∈ firedOf tasks a b, t.origin = a) ∧
    (b = false → firedOf tasks a b = []) ∧
    (∀ t ∈ firedOf tasks a b, t ∈ tasks.takeWhile (fun t => t.origin == a)) := by
  induction tasks generalizing b with
  | nil => simp [firedOf]
  | cons t ts ih =>
    simp only [firedOf, List.takeWhile_cons]
    by_cases ho : (t.origin == a) = true
    · simp only [ho, if_true]
      cases b
      · simp only [Bool.false_eq_true, if_false]
        obtain ⟨i1, i2, i3⟩ := ih false
        exact ⟨i1, fun _ => i2 rfl, fun x hx => by simp [i3 x hx]⟩
      · simp only [if_true]
        obtain ⟨i1, i2, i3⟩ := ih (if (t.origin == t.dest) = true then false else true)
        refine ⟨?_, ?_, ?_⟩
        · intro x hx
          rcases List.mem_cons.mp hx with rfl | hx
          · exact beq_iff_eq.mp ho
          · exact i1 x hx
        · intro h; cases h
        · intro x hx
          rcases List.mem_cons.mp hx with rfl | hx
          · simp
          · simp [i3 x hx]
    · have : (t.origin == a) = false := by simpa using ho
      simp [this]

/-- **fired tasks are removed, the rest keep their order**: kept and fired partition the plan; `kept`
    is a sublist of the plan (original order) -/
theorem C08_once (tasks : List Task) (a : Nat) (b : Bool) :
    (keptOf tasks a b).length + (firedOf tasks a b).length = tasks.length ∧
    List.Sublist (keptOf tasks a b) tasks := by
  induction tasks generalizing b with
  | nil => simp [keptOf, firedOf]
  | cons t ts ih =>
    simp only [keptOf, firedOf]
    by_cases ho : (t.origin == a) = true
    · simp only [ho, if_true]
      cases b
      · simp only [Bool.false_eq_true, if_false, List.length_cons]
        obtain ⟨i1, i2⟩ := ih false
        exact ⟨by omega, i2.cons₂ t⟩
      · simp only [if_true, List.length_cons]
        obtain ⟨i1, i2⟩ := ih (if (t.origin == t.dest) = true then false else true)
        exact ⟨by omega, i2.cons t⟩
    · have : (t.origin == a) = false := by simpa using ho
      simp [this]

/-- **converse**: when the first task's origin is the active state and its success is outstanding,
    that task fires (it is the first fired task and is not kept at the front) -/
theorem C08_fire_complete (t : Task) (ts : List Task) (a : Nat) (h : t.origin = a) :
    (firedOf (t :: ts) a true).head? = some t := by
  simp [firedOf, h]

/-- **a success report is consumed by the tasks it fires**: after a cyclic task fired, nothing more
    fires on that report (the bit is cleared on the spot) -/
theorem C08_cyclic_consumes (t : Task) (ts : List Task) (a : Nat) (h : t.origin = a) (hc : t.dest = a) :
    firedOf (t :: ts) a true = [t] := by
  have hb := (C08_fire_sound ts a false).2.1 rfl
  simp [firedOf, h, hc, hb]

/-- non-vacuity: plan `[2→0, 2→2, 2→1, 0→1]`, state 2 active with success outstanding: the first two
    fire (the cyclic one consumes the report), `2→1` waits for a new report, `0→1` is untouched -/
example : firedOf [⟨2,0,none⟩, ⟨2,2,some 7⟩, ⟨2,1,none⟩, ⟨0,1,none⟩] 2 true = [⟨2,0,none⟩, ⟨2,2,some 7⟩] ∧
          keptOf [⟨2,0,none⟩, ⟨2,2,some 7⟩, ⟨2,1,none⟩, ⟨0,1,none⟩] 2 true = [⟨2,1,none⟩, ⟨0,1,none⟩] := by decide

end FFSM2
