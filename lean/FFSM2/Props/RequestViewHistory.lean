import FFSM2.Props.History
import FFSM2.Props.C05
import FFSM2.Lemmas.ReqView
/-!
# C06 over whole histories: the request a lifecycle callback is shown is the request that is waiting

"Inside any state callback the control reports … the request currently waiting to be processed (if any)."
`enter` / `exit` / `reenter` receive a plan control and cannot request anything, so what they are shown can be
compared with what is left in the machine when the call returns:

* `C06_processRequest_life_request` — every lifecycle delivery of a processing point shows exactly the request
  the machine holds when processing ends (nothing, unless the substitution limit left one over);
* `C06_history_update_life_request` / `C06_history_react_life_request` / `C06_history_immediate_life_request` —
  the same from any world for the public calls;
* `C06_load_request_view` / `C06_history_load_request_view` — `load()` on an active machine discards the
  outstanding request (and, with transition history, the recorded transition) *before* it delivers anything:
  every `exit` / `enter` / `reenter` it delivers shows no request, and none is waiting afterwards, whatever the
  loader held, whatever the buffer holds and whichever features are enabled.
-/
namespace FFSM2
open Step

theorem showsReq_finishProcessing (env : Env) (cur : Tr) : ShowsReq (finishProcessing env cur) := by
  unfold finishProcessing
  apply showsReq_modifyCore
  intro _; rfl

/-- **the lifecycle callbacks of a processing point see the request that is waiting when it ends** -/
theorem C06_processRequest_life_request (env : Env) (s : St) :
    ∀ e ∈ (processRequest env s).2, ∀ key vis o, e = Ev.cb key vis o → key.method.isLife = true →
      o.request = (processRequest env s).1.core.request.canon := by
  intro e he key vis o hk hl
  unfold processRequest at he ⊢
  by_cases hv : s.core.request.valid = true
  · simp only [hv, if_true] at he ⊢
    rcases List.mem_append.mp he with he | he
    · have hq := (substLoop_quiet (guardRound env) (stable_guardRound env) (noLife_guardRound env) (substFuel env.cfg.L) {} s).2
      have : e ∈ (substLoop (guardRound env) (substFuel env.cfg.L) {} s).2.filter Ev.isLife := by
        rw [List.mem_filter]; exact ⟨he, by rw [hk]; exact hl⟩
      rw [hq] at this; cases this
    · obtain ⟨h1, h2⟩ := (ShowsReq.seq (showsReq_applySurvivor env (substLoop (guardRound env) (substFuel env.cfg.L) {} s).1.2)
        (showsReq_finishProcessing env (substLoop (guardRound env) (substFuel env.cfg.L) {} s).1.2))
        (substLoop (guardRound env) (substFuel env.cfg.L) {} s).1.1
      rw [h1]
      exact h2 e he key vis o hk
  · have hv' : s.core.request.valid = false := by simpa using hv
    simp only [hv', Bool.false_eq_true, if_false, finishProcessing, modifyCore] at he
    cases he

theorem cycle_life_request (env : Env) (pre mid post : Method)
    (h1 : pre.isLife = false ∧ pre.isGuard = false) (h2 : mid.isLife = false ∧ mid.isGuard = false)
    (h3 : post.isLife = false ∧ post.isGuard = false) (s : St) :
    ∀ e ∈ (cycle env pre mid post s).2, ∀ key vis o, e = Ev.cb key vis o → key.method.isLife = true →
      o.request = (cycle env pre mid post s).1.core.request.canon := by
  intro e he key vis o hk hl
  rw [cycle_eq] at he ⊢
  simp only [Step.seq] at he ⊢
  rcases List.mem_append.mp he with he | he
  · have hq := (C05_requests_last env pre mid post h1 h2 h3).1 s
    have : e ∈ (prelude env pre mid post s).2.filter Ev.isLife := by
      rw [List.mem_filter]; exact ⟨he, by rw [hk]; exact hl⟩
    rw [hq] at this; cases this
  · exact C06_processRequest_life_request env _ e he key vis o hk hl

/-- **C06 over whole histories — `update()`**: from any world, every `exit` / `enter` / `reenter` the call delivers
    shows as `request()` exactly the request instance `i` holds when the call returns -/
theorem C06_history_update_life_request (cfg : Cfg) (beh : Beh) (w : World) (k i : Nat) (c c' : Core)
    (hg : w.get i = some c) (ha : c.active ≠ 255)
    (hget : (stepAll cfg beh w k (.update i)).1.get i = some c') :
    ∀ e ∈ (stepAll cfg beh w k (.update i)).2, ∀ key vis o, e = Ev.cb key vis o → key.method.isLife = true →
      o.request = c'.request.canon := by
  intro e he key vis o hk hl
  have hact : (c.active != 255) = true := by simpa using ha
  simp only [stepAll, step, Op.inst, Op.name, hg] at he hget
  rw [if_pos hact] at he hget
  rw [onCore_fst, World.get_put_same] at hget
  cases hget
  rw [onCore_snd] at he
  rcases List.mem_append.mp he with he | he
  · exact cycle_life_request ⟨cfg, beh, i, k⟩ .preUpdate .update .postUpdate ⟨rfl, rfl⟩ ⟨rfl, rfl⟩ ⟨rfl, rfl⟩ _ e he key vis o hk hl
  · simp only [List.mem_singleton] at he; rw [hk] at he; cases he

theorem C06_history_react_life_request (cfg : Cfg) (beh : Beh) (w : World) (k i : Nat) (c c' : Core)
    (hg : w.get i = some c) (ha : c.active ≠ 255)
    (hget : (stepAll cfg beh w k (.react i)).1.get i = some c') :
    ∀ e ∈ (stepAll cfg beh w k (.react i)).2, ∀ key vis o, e = Ev.cb key vis o → key.method.isLife = true →
      o.request = c'.request.canon := by
  intro e he key vis o hk hl
  have hact : (c.active != 255) = true := by simpa using ha
  simp only [stepAll, step, Op.inst, Op.name, hg] at he hget
  rw [if_pos hact] at he hget
  rw [onCore_fst, World.get_put_same] at hget
  cases hget
  rw [onCore_snd] at he
  rcases List.mem_append.mp he with he | he
  · exact cycle_life_request ⟨cfg, beh, i, k⟩ .preReact .react .postReact ⟨rfl, rfl⟩ ⟨rfl, rfl⟩ ⟨rfl, rfl⟩ _ e he key vis o hk hl
  · simp only [List.mem_singleton] at he; rw [hk] at he; cases he

/-- **… and `immediateChangeTo(d)`** -/
theorem C06_history_immediate_life_request (cfg : Cfg) (beh : Beh) (w : World) (k i d : Nat) (c c' : Core)
    (hg : w.get i = some c) (hcond : (c.active != 255 && idOk cfg d) = true)
    (hget : (stepAll cfg beh w k (.immediateChangeTo i d)).1.get i = some c') :
    ∀ e ∈ (stepAll cfg beh w k (.immediateChangeTo i d)).2, ∀ key vis o, e = Ev.cb key vis o → key.method.isLife = true →
      o.request = c'.request.canon := by
  intro e he key vis o hk hl
  simp only [stepAll, step, Op.inst, Op.name, hg] at he hget
  rw [if_pos hcond] at he hget
  rw [onCore_fst, World.get_put_same] at hget
  cases hget
  rw [onCore_snd] at he
  have e1 : (extChange ⟨cfg, beh, i, k⟩ d none ⋙ processRequest ⟨cfg, beh, i, k⟩) { core := c } =
      ((processRequest ⟨cfg, beh, i, k⟩ { core := { c with request := ⟨255, d, none⟩ } }).1,
       (extChange ⟨cfg, beh, i, k⟩ d none { core := c }).2 ++
       (processRequest ⟨cfg, beh, i, k⟩ { core := { c with request := ⟨255, d, none⟩ } }).2) := rfl
  rw [e1] at he ⊢
  rcases List.mem_append.mp he with he | he
  · rcases List.mem_append.mp he with he | he
    · simp only [extChange, logEv] at he
      split at he
      · simp only [List.mem_singleton] at he; rw [hk] at he; cases he
      · cases he
    · exact C06_processRequest_life_request _ _ e he key vis o hk hl
  · simp only [List.mem_singleton] at he; rw [hk] at he; cases he

/-- **… and `immediateChangeWith(d, p)`** -/
theorem C06_history_immediate_with_life_request (cfg : Cfg) (beh : Beh) (w : World) (k i d p : Nat) (c c' : Core)
    (hg : w.get i = some c) (hcond : (c.active != 255 && idOk cfg d && cfg.hasPayload) = true)
    (hget : (stepAll cfg beh w k (.immediateChangeWith i d p)).1.get i = some c') :
    ∀ e ∈ (stepAll cfg beh w k (.immediateChangeWith i d p)).2, ∀ key vis o, e = Ev.cb key vis o → key.method.isLife = true →
      o.request = c'.request.canon := by
  intro e he key vis o hk hl
  simp only [stepAll, step, Op.inst, Op.name, hg] at he hget
  rw [if_pos hcond] at he hget
  rw [onCore_fst, World.get_put_same] at hget
  cases hget
  rw [onCore_snd] at he
  have e1 : (extChange ⟨cfg, beh, i, k⟩ d (some p) ⋙ processRequest ⟨cfg, beh, i, k⟩) { core := c } =
      ((processRequest ⟨cfg, beh, i, k⟩ { core := { c with request := ⟨255, d, some p⟩ } }).1,
       (extChange ⟨cfg, beh, i, k⟩ d (some p) { core := c }).2 ++
       (processRequest ⟨cfg, beh, i, k⟩ { core := { c with request := ⟨255, d, some p⟩ } }).2) := rfl
  rw [e1] at he ⊢
  rcases List.mem_append.mp he with he | he
  · rcases List.mem_append.mp he with he | he
    · simp only [extChange, logEv] at he
      split at he
      · simp only [List.mem_singleton] at he; rw [hk] at he; cases he
      · cases he
    · exact C06_processRequest_life_request _ _ e he key vis o hk hl
  · simp only [List.mem_singleton] at he; rw [hk] at he; cases he

/-! ### `load()` -/

theorem canon_clear (t : Tr) : t.clear.canon = {} := by
  simp [Tr.canon, Tr.clear, Tr.valid]

/-- the reset `loadActive` performs before it delivers anything -/
def loadReset (env : Env) (requested : Nat) (c : Core) : Core :=
  let c1 := { c with requested := requested, request := c.request.clear }
  let c2 := if env.cfg.plans then planDataClear c1 else c1
  if env.cfg.history then { c2 with prev := c2.prev.clear } else c2

theorem loadReset_request (env : Env) (r : Nat) (c : Core) : (loadReset env r c).request = c.request.clear := by
  unfold loadReset
  cases env.cfg.plans <;> cases env.cfg.history <;> rfl

theorem loadReset_prev (env : Env) (r : Nat) (c : Core) (hh : env.cfg.history = true) :
    (loadReset env r c).prev = c.prev.clear := by
  unfold loadReset
  rw [hh]
  cases env.cfg.plans <;> rfl

theorem loadActive_eq (env : Env) (r : Nat) : loadActive env r = modifyCore (loadReset env r) ⋙ changeToRequested env {} := rfl

/-- **`load()` of an active machine from a buffer holding an active machine**: the outstanding request is
    discarded before anything is delivered — every delivery shows no request, none is waiting afterwards, and
    with transition history the recorded transition is empty afterwards — for every buffer content, every loader
    state and every feature set -/
theorem C06_load_request_view (env : Env) (buf : List Nat) (s : St) (ha : s.core.active ≠ 255)
    (hb : (BitStream.read 1 buf 0).1 ≠ 0) :
    (load env buf s).1.core.request.valid = false ∧
    (env.cfg.history = true → (load env buf s).1.core.prev.valid = false) ∧
    ∀ e ∈ (load env buf s).2, ∀ key vis o, e = Ev.cb key vis o → o.request = {} := by
  have hact : (s.core.active != 255) = true := by simpa using ha
  have hb' : ((BitStream.read 1 buf 0).1 != 0) = true := by simpa using hb
  unfold load
  simp only [hb', hact, if_true]
  rw [loadActive_eq]
  simp only [Step.seq, modifyCore, List.nil_append]
  obtain ⟨h1, h2⟩ := showsReq_changeToRequested env {}
    { s with core := loadReset env (BitStream.read (Gen.widthBits env.cfg.n) buf (BitStream.read 1 buf 0).2).1 s.core }
  refine ⟨?_, ?_, ?_⟩
  · rw [h1]; simp [loadReset_request, Tr.clear, Tr.valid]
  · intro hh
    rw [prevSame_changeToRequested env {} _]
    simp [loadReset_prev env _ _ hh, Tr.clear, Tr.valid]
  · intro e he key vis o hk
    rw [h2 e he key vis o hk]
    show (loadReset env _ s.core).request.canon = {}
    rw [loadReset_request, canon_clear]

/-- **C06 over whole histories — `load()`**: in any world, for an active loader and an active saver (of any
    instance, itself included): every callback delivered while the buffer is applied shows an empty `request()`,
    and the loader holds no request when `load()` returns -/
theorem C06_history_load_request_view (cfg : Cfg) (hwf : cfg.WF) (beh : Beh) (ops : List Op) (k i src : Nat) (c sc c' : Core)
    (hi : (run cfg beh ops).1.get i = some c) (hs : (run cfg beh ops).1.get src = some sc)
    (hser : cfg.serialization = true) (ha : c.active ≠ 255) (hsa : sc.active ≠ 255)
    (hget : (stepAll cfg beh (run cfg beh ops).1 k (.load i src)).1.get i = some c') :
    c'.request.valid = false ∧ (cfg.history = true → c'.prev.valid = false) ∧
    ∀ e ∈ (stepAll cfg beh (run cfg beh ops).1 k (.load i src)).2, ∀ key vis o, e = Ev.cb key vis o → o.request = {} := by
  have hok := run_worldOk cfg hwf beh ops src sc hs
  generalize (run cfg beh ops).1 = w at hi hs hget
  have hcond : (cfg.serialization && (cfg.manual || (c.active != 255 && sc.active != 255))) = true := by
    simp [hser, ha, hsa]
  have hstep : stepAll cfg beh w k (.load i src) =
      onCore cfg w i k "load" c (load ⟨cfg, beh, i, k⟩ (save cfg sc)) := by
    simp only [stepAll, step, Op.inst, Op.name, hi, hs]
    rw [if_pos hcond]
  rw [hstep] at hget ⊢
  rw [onCore_fst, World.get_put_same] at hget
  cases hget
  have hlt : sc.active < cfg.n := by
    rcases hok.active with h | h
    · exact h
    · exact absurd h hsa
  have hb : (BitStream.read 1 (save cfg sc) 0).1 ≠ 0 := by
    rw [(load_decode_active cfg hwf sc hlt).1]; decide
  obtain ⟨r1, r2, r3⟩ := C06_load_request_view ⟨cfg, beh, i, k⟩ (save cfg sc) { core := c } ha hb
  refine ⟨r1, r2, ?_⟩
  intro e he key vis o hk
  rw [onCore_snd] at he
  rcases List.mem_append.mp he with he | he
  · exact r3 e he key vis o hk
  · simp only [List.mem_singleton] at he; rw [hk] at he; cases he

/-- non-vacuity: instance 0 holds the request `changeTo(2)` when it loads instance 1's state (state 1):
    `exit(0)` and `enter(1)` both see an empty request, and the following `update()` finds nothing to process -/
example :
    let cfg : Cfg := { n := 3, L := 2, cap := 2, serialization := true }
    let beh : Beh := fun _ => []
    let r := run cfg beh [.construct 0 false, .construct 1 false, .immediateChangeTo 1 1, .changeTo 0 2, .load 0 1, .update 0]
    r.2.filterMap (fun e => match e with
      | .cb k _ o => if k.op ≥ 4 ∧ k.layer = Ancestors.Layer.own ∧ k.method.isLife then some (k.op, k.method, k.sid, o.request.dest) else none
      | _ => none) = [(4, .exit, 0, 255), (4, .enter, 1, 255)] ∧
    actOf (r.1.get 0) = 1 := by
  decide

/-! ### the next call starts from the request the previous one left -/

/-- **C06 over whole histories — the first callback of `update()`** is shown exactly the request the instance
    held when the call began -/
theorem C06_history_update_first_sees_waiting (cfg : Cfg) (beh : Beh) (w : World) (k i : Nat) (c : Core)
    (hg : w.get i = some c) (ha : c.active ≠ 255) :
    ∃ key vis o rest, (stepAll cfg beh w k (.update i)).2.filter Ev.isCb = Ev.cb key vis o :: rest ∧
      o.request = c.request.canon := by
  have hact : (c.active != 255) = true := by simpa using ha
  obtain ⟨key, vis, o, rest, h1, h2⟩ := starts_cycle ⟨cfg, beh, i, k⟩ .preUpdate .update .postUpdate { core := c }
  refine ⟨key, vis, o, rest, ?_, h2⟩
  simp only [stepAll, step, Op.inst, Op.name, hg]
  rw [if_pos hact, onCore_snd, List.filter_append]
  show List.filter Ev.isCb (cycle ⟨cfg, beh, i, k⟩ .preUpdate .update .postUpdate { core := c }).2 ++ _ = _
  rw [h1]
  simp [Ev.isCb]

/-- **what the lifecycle callbacks of one `update()` were shown is what the first callback of the next one is
    shown**: the request is the one really waiting — it is neither dropped nor invented between the calls -/
theorem C06_history_waiting_request_carried (cfg : Cfg) (beh : Beh) (w : World) (k k' i : Nat) (c c' : Core)
    (hg : w.get i = some c) (ha : c.active ≠ 255)
    (hget : (stepAll cfg beh w k (.update i)).1.get i = some c') (ha' : c'.active ≠ 255) :
    ∃ key vis o rest, (stepAll cfg beh (stepAll cfg beh w k (.update i)).1 k' (.update i)).2.filter Ev.isCb = Ev.cb key vis o :: rest ∧
      ∀ e ∈ (stepAll cfg beh w k (.update i)).2, ∀ key' vis' o', e = Ev.cb key' vis' o' → key'.method.isLife = true →
        o'.request = o.request := by
  obtain ⟨key, vis, o, rest, h1, h2⟩ := C06_history_update_first_sees_waiting cfg beh _ k' i c' hget ha'
  refine ⟨key, vis, o, rest, h1, ?_⟩
  intro e he key' vis' o' hk hl
  rw [h2]
  exact C06_history_update_life_request cfg beh w k i c c' hg ha hget e he key' vis' o' hk hl

/-- non-vacuity: a substitution limit of 1 leaves the redirect of state 1's entry guard waiting — `exit(0)` /
    `enter(1)` of the first `update()` and `preUpdate` of the second all see it -/
example :
    let cfg : Cfg := { n := 3, L := 1, cap := 2 }
    let beh : Beh := fun k => if k.method = .entryGuard ∧ k.sid = 1 then [.changeTo 2] else []
    let r := run cfg beh [.construct 0 false, .changeTo 0 1, .update 0, .update 0]
    r.2.filterMap (fun e => match e with
      | .cb k _ o => if k.layer = Ancestors.Layer.own ∧ (k.op = 2 ∧ k.method.isLife ∨ k.op = 3 ∧ k.method = .preUpdate ∧ k.sid = 255)
          then some (k.op, k.method, k.sid, o.request.origin, o.request.dest) else none
      | _ => none) = [(2, .exit, 0, 1, 2), (2, .enter, 1, 1, 2), (3, .preUpdate, 255, 1, 2)] := by
  decide

/-! ### `query()`, `react()` and the replay calls -/

theorem showsReq_query (env : Env) : ShowsReq (query env) := by
  intro s
  unfold query
  split
  · exact (ShowsReq.seq (showsReq_deliver env .query (Or.inr rfl) _ _ _) (showsReq_deliver env .query (Or.inr rfl) _ _ _)) s
  · exact (ShowsReq.seq (showsReq_deliver env .query (Or.inr rfl) _ _ _) (showsReq_deliver env .query (Or.inr rfl) _ _ _)) s

/-- **C06 over whole histories — `query()`**: every delivery of the call shows the request the instance holds, and
    the call leaves it waiting -/
theorem C06_history_query_shows_waiting (cfg : Cfg) (beh : Beh) (w : World) (k i : Nat) (c c' : Core)
    (hg : w.get i = some c) (ha : c.active ≠ 255)
    (hget : (stepAll cfg beh w k (.query i)).1.get i = some c') :
    c'.request = c.request ∧
    ∀ e ∈ (stepAll cfg beh w k (.query i)).2, ∀ key vis o, e = Ev.cb key vis o → o.request = c.request.canon := by
  have hact : (c.active != 255) = true := by simpa using ha
  simp only [stepAll, step, Op.inst, Op.name, hg] at hget ⊢
  rw [if_pos hact] at hget ⊢
  rw [onCore_fst, World.get_put_same] at hget
  cases hget
  obtain ⟨h1, h2⟩ := showsReq_query ⟨cfg, beh, i, k⟩ { core := c }
  refine ⟨h1, ?_⟩
  intro e he key vis o hk
  rw [onCore_snd] at he
  rcases List.mem_append.mp he with he | he
  · exact h2 e he key vis o hk
  · simp only [List.mem_singleton] at he; rw [hk] at he; cases he

theorem C06_history_react_first_sees_waiting (cfg : Cfg) (beh : Beh) (w : World) (k i : Nat) (c : Core)
    (hg : w.get i = some c) (ha : c.active ≠ 255) :
    ∃ key vis o rest, (stepAll cfg beh w k (.react i)).2.filter Ev.isCb = Ev.cb key vis o :: rest ∧
      o.request = c.request.canon := by
  have hact : (c.active != 255) = true := by simpa using ha
  obtain ⟨key, vis, o, rest, h1, h2⟩ := starts_cycle ⟨cfg, beh, i, k⟩ .preReact .react .postReact { core := c }
  refine ⟨key, vis, o, rest, ?_, h2⟩
  simp only [stepAll, step, Op.inst, Op.name, hg]
  rw [if_pos hact, onCore_snd, List.filter_append]
  show List.filter Ev.isCb (cycle ⟨cfg, beh, i, k⟩ .preReact .react .postReact { core := c }).2 ++ _ = _
  rw [h1]
  simp [Ev.isCb]

theorem applyRequest_request (cur : Tr) (d : Nat) (c : Core) : (applyRequest cur d c).1.request = c.request := by
  unfold applyRequest; split <;> rfl

theorem showsReq_replayTransition (env : Env) (d : Nat) : ShowsReq (replayTransition env d) := by
  unfold replayTransition
  refine ShowsReq.seq (ShowsReq.seq (ShowsReq.seq ?_ ?_) (showsReq_changeToRequested env {})) ?_
  · apply showsReq_modifyCore; intro _; rfl
  · apply showsReq_modifyCore; intro c; exact applyRequest_request {} d c
  · apply showsReq_modifyCore; intro _; rfl

/-- **replaying a transition neither shows nor touches anything but the request that is waiting**: every
    `exit` / `enter` / `reenter` of `replayTransition(d)` shows the instance's outstanding request, and it is still
    outstanding afterwards -/
theorem C06_replay_request_view (env : Env) (d : Nat) (s : St) :
    (replayTransition env d s).1.core.request = s.core.request ∧
    ∀ e ∈ (replayTransition env d s).2, ∀ key vis o, e = Ev.cb key vis o → o.request = s.core.request.canon :=
  showsReq_replayTransition env d s

end FFSM2
