import FFSM2.Layout
import FFSM2.Props.C13
import FFSM2.Props.C20
import FFSM2.Props.C14
import FFSM2.Props.C10
/-!
# C18 — No dynamic allocation and no undefined behaviour on any in-contract history   (partial)

A theorem about a model cannot exhibit heap allocation or undefined behaviour of compiled C++; that
part of the property is *executed* (both correspondence harnesses rebuilt with ASan + UBSan at `-O0`,
allocator interposition, symbol scan).  What the model can carry — and what is proved here — is the
arithmetic the C++ relies on to stay inside its arrays and to keep payloads aligned:
every index the container engines compute is in range under their invariants, and the payload
storage is aligned after the F5 repair.
-/
namespace FFSM2
open Layout

theorem alignUp_mod (n a : Nat) (ha : 0 < a) : alignUp n a % a = 0 := by
  unfold alignUp; exact Nat.mul_mod_left _ _

/-- **payload storage is aligned** (post-F5 layout: the derived templates are defined outside the
    `pack(1)` region): for every alignment `A` and every suitably aligned object address `base`, the
    address of `storage` is a multiple of `A` -/
theorem C18_payload_aligned (A baseSize base : Nat) (hA : 0 < A) (hbase : base % structAlign A none = 0) :
    (base + storageOffset baseSize A none) % A = 0 := by
  simp only [structAlign, storageOffset, memberAlign] at *
  rw [Nat.add_mod, hbase, alignUp_mod _ _ hA]; simp

/-- the witness of the defect F5 repaired: under `pack(1)` an 8-aligned payload lands at offset 3 -/
example : storageOffset 3 8 (some 1) = 3 ∧ (0 + storageOffset 3 8 (some 1)) % 8 ≠ 0 ∧ storageOffset 3 8 none = 8 := by decide

/-- **bit stream**: every byte index touched by `write<N>` / `read<N>` within the declared capacity is
    inside the `BYTE_COUNT`-byte buffer (= C13_byteIndex_in_range) -/
theorem C18_stream_index {cap cursor w : Nat} (hfit : cursor + w ≤ cap) :
    ∀ c, cursor ≤ c → c < cursor + w → c >>> 3 < BitStream.byteCount cap := C13_byteIndex_in_range hfit

/-- **bit array**: the unit index of every in-range bit index is inside the storage -/
theorem C18_bitarray_index {cap i : Nat} (hi : i < cap) : i / 8 < BitArray.unitCount cap := C20_unit_index_in_range hi

/-- **task list**: the slot `emplace` writes is inside the item array, and it returns INVALID (255)
    rather than an index when full -/
theorem C18_tasklist_index {s : TaskList.TL} {vac : List Nat} (h : TaskList.Inv s vac) (t : TaskList.Item) :
    (s.count < s.cap → (TaskList.emplace s t).2 < s.items.length) ∧
    (¬ s.count < s.cap → (TaskList.emplace s t).2 = 255) := by
  constructor
  · intro hc
    obtain ⟨_, _, hidx, _, hlt, _⟩ := TaskList.emplace_spec h hc t
    rw [hidx, h.len]; exact hlt
  · intro hc; rw [TaskList.emplace_full s t hc]

/-- **task links / bounds**: every index stored in the plan's order (hence `first`, `last`, every
    `prev`/`next` followed by an iterator) is below the capacity -/
theorem C18_links_index {p : PlanList.Plan} {vac order : List Nat} (h : PlanList.PInv p vac order) :
    (∀ j ∈ order, j < p.links.length ∧ j < p.tasks.items.length) ∧
    (p.first = 255 ∨ p.first < p.links.length) ∧ (p.last = 255 ∨ p.last < p.links.length) := by
  have hl := h.linksLen
  refine ⟨fun j hj => ⟨by rw [hl]; exact PlanList.order_lt_cap h j hj, by rw [h.tl.len]; exact PlanList.order_lt_cap h j hj⟩, ?_, ?_⟩
  · rw [h.firstEq]
    cases order with
    | nil => left; rfl
    | cons x r => right; rw [hl]; exact PlanList.order_lt_cap h x (by simp)
  · rw [h.lastEq]
    cases horder : order with
    | nil => left; rfl
    | cons x r =>
      right; rw [hl, ← horder]
      exact PlanList.order_lt_cap h _ (PlanList.getLast_mem_of_ne_nil (by rw [horder]; simp))

/-- **dispatch**: a prong below the state count always reaches a leaf (never falls off the tree) -/
theorem C18_dispatch_prong {α : Type} (l : List α) (k : Nat) (hk : k < l.length) :
    ∃ v, Dispatch.wide (Dispatch.cs l.length l 0 0) k = some (k, v) :=
  ⟨l[k], C14_dispatch l k l[k] (List.getElem?_eq_getElem hk)⟩

/-- **no wrap-around of the small integers**: ids, cursors and counts stay below 256 (`uint8_t`) -/
theorem C18_no_wrap {s : TaskList.TL} {vac : List Nat} (h : TaskList.Inv s vac) :
    s.count ≤ 255 ∧ s.last ≤ 255 ∧ s.cap ≤ 255 := by
  have := h.cnt; have := TaskList.bound_le s h.lastLe; have := h.capLe; have := h.lastLe
  omega

end FFSM2
