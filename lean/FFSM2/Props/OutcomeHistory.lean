import FFSM2.Props.History
import FFSM2.Props.C02
import FFSM2.Props.C07
/-!
# C02 over whole histories: the outcome of every processing point, from any world

`C02_history_immediate_outcome` — `immediateChangeTo(d)` / `immediateChangeWith(d, p)` on an active instance of any
world: with `cur` the most recent request of that processing point that was not cancelled by a guard (the ghost
`survivor` of the rounds actually evaluated), the call runs no lifecycle callback and leaves the active state alone
when there is none; runs `reenter` alone when `cur` names the active state; runs `exit(old)` then `enter(cur.dest)`
otherwise — and the instance ends in `cur.dest`.

`C02_history_cycle_outcome` — the same for `update()` / `react()`, whose processing point comes after the phases and
the plan step: none of those touches the active state or runs a lifecycle callback.
-/
namespace FFSM2
open Step

/-- the outcome of a processing point that starts in `s`: the lifecycle trace and the resulting active state -/
def OutcomeOf (env : Env) (s : St) (lifeSig : List (Method × Nat)) (activeAfter : Nat) : Prop :=
  let cur := survivor {} (processRounds env s)
  (cur.valid = false → activeAfter = s.core.active ∧ lifeSig = []) ∧
  (cur.valid = true → activeAfter = cur.dest ∧
    lifeSig = if cur.dest != s.core.active then [(Method.exit, s.core.active), (Method.enter, cur.dest)]
              else [(Method.reenter, s.core.active)])

theorem outcomeOf_processRequest (env : Env) (s : St) :
    OutcomeOf env s (sig (processRequest env s).2) (processRequest env s).1.core.active :=
  C02_outcome env s

theorem sig_extChange (env : Env) (d : Nat) (p : Option Nat) (s : St) : sig (extChange env d p s).2 = [] := by
  simp only [extChange]; exact sig_logEv env _ _

/-- **C02 over whole histories — `immediateChangeTo` / `immediateChangeWith`.**  Any world, an active instance
    holding core `c`, destination in range: the call's lifecycle callbacks and the state it ends in are exactly the
    outcome of one processing point started with the request `(none, d, p)` outstanding. -/
theorem C02_history_immediate_outcome (cfg : Cfg) (beh : Beh) (w : World) (k i d : Nat) (c : Core)
    (hg : w.get i = some c) (hcond : (c.active != 255 && idOk cfg d) = true) :
    let env : Env := ⟨cfg, beh, i, k⟩
    let s1 : St := { core := { c with request := ⟨255, d, none⟩ } }
    OutcomeOf env s1 (sig (stepAll cfg beh w k (.immediateChangeTo i d)).2)
      (actOf ((stepAll cfg beh w k (.immediateChangeTo i d)).1.get i)) := by
  intro env s1
  simp only [stepAll, step, Op.inst, Op.name, hg]
  rw [if_pos hcond, onCore_snd, onCore_fst, World.get_put_same, sig_append, sig_api, List.append_nil]
  have e : (extChange env d none ⋙ processRequest env) { core := c } =
      ((processRequest env s1).1, (extChange env d none { core := c }).2 ++ (processRequest env s1).2) := rfl
  rw [e, sig_append, sig_extChange, List.nil_append]
  exact outcomeOf_processRequest env s1

theorem C02_history_immediate_with_outcome (cfg : Cfg) (beh : Beh) (w : World) (k i d p : Nat) (c : Core)
    (hg : w.get i = some c) (hcond : (c.active != 255 && idOk cfg d && cfg.hasPayload) = true) :
    let env : Env := ⟨cfg, beh, i, k⟩
    let s1 : St := { core := { c with request := ⟨255, d, some p⟩ } }
    OutcomeOf env s1 (sig (stepAll cfg beh w k (.immediateChangeWith i d p)).2)
      (actOf ((stepAll cfg beh w k (.immediateChangeWith i d p)).1.get i)) := by
  intro env s1
  simp only [stepAll, step, Op.inst, Op.name, hg]
  rw [if_pos hcond, onCore_snd, onCore_fst, World.get_put_same, sig_append, sig_api, List.append_nil]
  have e : (extChange env d (some p) ⋙ processRequest env) { core := c } =
      ((processRequest env s1).1, (extChange env d (some p) { core := c }).2 ++ (processRequest env s1).2) := rfl
  rw [e, sig_append, sig_extChange, List.nil_append]
  exact outcomeOf_processRequest env s1

/-- **C02 over whole histories — `update()`**: the lifecycle of the call is exactly the outcome of its processing
    point, which starts from what the phases and the plan step left (`prelude`), with the active state still the one
    the call began in -/
theorem C02_history_update_outcome (cfg : Cfg) (beh : Beh) (w : World) (k i : Nat) (c : Core)
    (hg : w.get i = some c) (ha : c.active ≠ 255) :
    let env : Env := ⟨cfg, beh, i, k⟩
    let s1 : St := (prelude env .preUpdate .update .postUpdate { core := c }).1
    s1.core.active = c.active ∧
    OutcomeOf env s1 (sig (stepAll cfg beh w k (.update i)).2) (actOf ((stepAll cfg beh w k (.update i)).1.get i)) := by
  intro env s1
  have hact : (c.active != 255) = true := by simpa using ha
  obtain ⟨h1, h2, h3⟩ := C02_cycle_outcome env .preUpdate .update .postUpdate rfl rfl rfl { core := c }
  refine ⟨h1, ?_⟩
  simp only [stepAll, step, Op.inst, Op.name, hg]
  rw [if_pos hact, onCore_snd, onCore_fst, World.get_put_same, sig_append, sig_api, List.append_nil]
  show OutcomeOf env s1 (sig (cycle env .preUpdate .update .postUpdate { core := c }).2)
    (cycle env .preUpdate .update .postUpdate { core := c }).1.core.active
  rw [h2, h3]
  exact outcomeOf_processRequest env s1

theorem C02_history_react_outcome (cfg : Cfg) (beh : Beh) (w : World) (k i : Nat) (c : Core)
    (hg : w.get i = some c) (ha : c.active ≠ 255) :
    let env : Env := ⟨cfg, beh, i, k⟩
    let s1 : St := (prelude env .preReact .react .postReact { core := c }).1
    s1.core.active = c.active ∧
    OutcomeOf env s1 (sig (stepAll cfg beh w k (.react i)).2) (actOf ((stepAll cfg beh w k (.react i)).1.get i)) := by
  intro env s1
  have hact : (c.active != 255) = true := by simpa using ha
  obtain ⟨h1, h2, h3⟩ := C02_cycle_outcome env .preReact .react .postReact rfl rfl rfl { core := c }
  refine ⟨h1, ?_⟩
  simp only [stepAll, step, Op.inst, Op.name, hg]
  rw [if_pos hact, onCore_snd, onCore_fst, World.get_put_same, sig_append, sig_api, List.append_nil]
  show OutcomeOf env s1 (sig (cycle env .preReact .react .postReact { core := c }).2)
    (cycle env .preReact .react .postReact { core := c }).1.core.active
  rw [h2, h3]
  exact outcomeOf_processRequest env s1

/-- **C11 over whole histories — the history records the survivor.**  With transition history enabled, after
    `immediateChangeTo(d)` from any world `previousTransition()` is exactly the most recent request of that processing
    point that was not cancelled by a guard (empty if there is none) — origin, destination and payload alike -/
theorem C11_history_immediate_prev (cfg : Cfg) (beh : Beh) (w : World) (k i d : Nat) (c c' : Core)
    (hg : w.get i = some c) (hcond : (c.active != 255 && idOk cfg d) = true) (hh : cfg.history = true)
    (hget : (stepAll cfg beh w k (.immediateChangeTo i d)).1.get i = some c') :
    c'.prev = survivor {} (processRounds ⟨cfg, beh, i, k⟩ { core := { c with request := ⟨255, d, none⟩ } }) := by
  simp only [stepAll, step, Op.inst, Op.name, hg] at hget
  rw [if_pos hcond, onCore_fst, World.get_put_same] at hget
  cases hget
  exact (processRequest_spec ⟨cfg, beh, i, k⟩ { core := { c with request := ⟨255, d, none⟩ } }).2.2.1 hh

/-- … and after `update()`: the survivor of the processing point that follows the phases and the plan step -/
theorem C11_history_update_prev (cfg : Cfg) (beh : Beh) (w : World) (k i : Nat) (c c' : Core)
    (hg : w.get i = some c) (ha : c.active ≠ 255) (hh : cfg.history = true)
    (hget : (stepAll cfg beh w k (.update i)).1.get i = some c') :
    c'.prev = survivor {} (processRounds ⟨cfg, beh, i, k⟩ (prelude ⟨cfg, beh, i, k⟩ .preUpdate .update .postUpdate { core := c }).1) := by
  have hact : (c.active != 255) = true := by simpa using ha
  simp only [stepAll, step, Op.inst, Op.name, hg] at hget
  rw [if_pos hact, onCore_fst, World.get_put_same] at hget
  cases hget
  exact (processRequest_spec ⟨cfg, beh, i, k⟩ (prelude ⟨cfg, beh, i, k⟩ .preUpdate .update .postUpdate { core := c }).1).2.2.1 hh


/-- every delivery of the applied change shows the applied transition as `currentTransition()` -/
theorem allCb_changeToRequested_current (env : Env) (cur : Tr) :
    AllCb (fun _ _ o => o.current = some cur.canon) (changeToRequested env cur) := by
  have key : ∀ (m : Method) (hm : m.flavour ≠ .const) (sid : Nat),
      AllCb (fun _ _ o => o.current = some cur.canon) (deliver env m sid cur {}) :=
    fun m hm sid => allCb_deliver env m sid cur {} (fun _ _ c => observe_current env m hm sid cur {} c)
  unfold changeToRequested
  intro s
  dsimp only
  split
  · exact (AllCb.seq (AllCb.seq (AllCb.seq (key .exit (by decide) _) (allCb_modifyCore _ _)) (allCb_modifyCore _ _))
      (allCb_dep fun s0 => key .enter (by decide) _)) s
  · exact (AllCb.seq (allCb_modifyCore _ _) (key .reenter (by decide) _)) s

theorem allCb_applySurvivor_current (env : Env) (cur : Tr) :
    AllCb (fun _ _ o => o.current = some cur.canon) (applySurvivor env cur) := by
  unfold applySurvivor
  intro s
  dsimp only
  split
  · exact (AllCb.seq (allCb_modifyCore _ _) (allCb_changeToRequested_current env cur)) s
  · intro e he; cases he

/-- the lifecycle deliveries of a processing point all show the surviving request as `currentTransition()` -/
theorem processRequest_life_current (env : Env) (s : St) :
    ∀ e ∈ (processRequest env s).2, ∀ key vis o, e = Ev.cb key vis o → key.method.isLife = true →
      o.current = some (survivor {} (processRounds env s)).canon := by
  intro e he key vis o hk hl
  unfold processRequest at he
  by_cases hv : s.core.request.valid = true
  · simp only [hv, if_true] at he
    have hcur : (substLoop (guardRound env) (substFuel env.cfg.L) {} s).1.2 = survivor {} (processRounds env s) := by
      rw [substLoop_current]; simp [processRounds, hv]
    rcases List.mem_append.mp he with he | he
    · -- guard rounds deliver no lifecycle callback
      have hq := (substLoop_quiet (guardRound env) (stable_guardRound env) (noLife_guardRound env) (substFuel env.cfg.L) {} s).2
      have : e ∈ (substLoop (guardRound env) (substFuel env.cfg.L) {} s).2.filter Ev.isLife := by
        rw [List.mem_filter]; exact ⟨he, by rw [hk]; exact hl⟩
      rw [hq] at this; cases this
    · rw [hcur] at he
      have hall : AllCb (fun _ _ o => o.current = some (survivor {} (processRounds env s)).canon)
          (applySurvivor env (survivor {} (processRounds env s)) ⋙ finishProcessing env (survivor {} (processRounds env s))) :=
        AllCb.seq (allCb_applySurvivor_current env _) (by unfold finishProcessing; exact allCb_modifyCore _ _)
      exact hall _ e he key vis o hk
  · have hv' : s.core.request.valid = false := by simpa using hv
    simp only [hv', Bool.false_eq_true, if_false, finishProcessing, modifyCore] at he
    cases he

/-- **C07 over whole histories — the lifecycle callbacks of a call see the surviving request, payload included.**
    Any world, `immediateChangeWith(d, p)` on an active instance: every `exit` / `enter` / `reenter` delivery of the
    call reports as `currentTransition()` exactly the most recent request of that processing point that no guard
    cancelled — origin, destination and payload. -/
theorem C07_history_lifecycle_sees_survivor (cfg : Cfg) (beh : Beh) (w : World) (k i d p : Nat) (c : Core)
    (hg : w.get i = some c) (hcond : (c.active != 255 && idOk cfg d && cfg.hasPayload) = true) :
    ∀ e ∈ (stepAll cfg beh w k (.immediateChangeWith i d p)).2, ∀ key vis o, e = Ev.cb key vis o → key.method.isLife = true →
      o.current = some (survivor {} (processRounds ⟨cfg, beh, i, k⟩ { core := { c with request := ⟨255, d, some p⟩ } })).canon := by
  intro e he key vis o hk hl
  simp only [stepAll, step, Op.inst, Op.name, hg] at he
  rw [if_pos hcond, onCore_snd] at he
  have e1 : (extChange ⟨cfg, beh, i, k⟩ d (some p) ⋙ processRequest ⟨cfg, beh, i, k⟩) { core := c } =
      ((processRequest ⟨cfg, beh, i, k⟩ { core := { c with request := ⟨255, d, some p⟩ } }).1,
       (extChange ⟨cfg, beh, i, k⟩ d (some p) { core := c }).2 ++
       (processRequest ⟨cfg, beh, i, k⟩ { core := { c with request := ⟨255, d, some p⟩ } }).2) := rfl
  rw [e1] at he
  rcases List.mem_append.mp he with he | he
  · rcases List.mem_append.mp he with he | he
    · simp only [extChange, logEv] at he
      split at he
      · simp only [List.mem_singleton] at he; rw [hk] at he; cases he
      · cases he
    · exact processRequest_life_current _ _ e he key vis o hk hl
  · simp only [List.mem_singleton] at he; rw [hk] at he; cases he


/-- non-vacuity: instance 1 of a two-instance world; its request to state 2 is redirected by 2's entry guard to 1,
    that redirect is vetoed: the survivor is the request to 2 -/
example :
    let cfg : Cfg := { n := 3, L := 4, cap := 3 }
    let beh : Beh := fun k =>
      if k.method = .entryGuard ∧ k.sid = 2 then [.changeTo 1]
      else if k.method = .entryGuard ∧ k.sid = 1 then [.cancel] else []
    let w := (run cfg beh [.construct 0 false, .construct 1 false]).1
    sig (stepAll cfg beh w 2 (.immediateChangeTo 1 2)).2 = [(.exit, 0), (.enter, 2)] ∧
    actOf ((stepAll cfg beh w 2 (.immediateChangeTo 1 2)).1.get 1) = 2 ∧
    actOf ((stepAll cfg beh w 2 (.immediateChangeTo 1 2)).1.get 0) = 0 := by
  decide

end FFSM2
