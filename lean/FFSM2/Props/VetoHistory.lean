import FFSM2.Props.History
/-!
# C03 over whole histories: once the exit guard has cancelled, the entry guard is not consulted

`C03_history_exit_veto_skips_entry` — any world, `immediateChangeTo(d)` on an active instance: in every guard round the
call evaluates, if a callback of the *exit* guard (the state's own or an injected base's) performed
`cancelPendingTransition()`, that round delivers no `entryGuard` at all.
-/
namespace FFSM2
open Step Ancestors

/-- a cancellation performed by an exit-guard callback -/
def Ev.isExitCancel : Ev → Bool
  | .act k .cancel => k.method == .exitGuard
  | _ => false

def hasExitCancel (es : List Ev) : Bool := es.any Ev.isExitCancel

theorem hasExitCancel_append (a b : List Ev) : hasExitCancel (a ++ b) = (hasExitCancel a || hasExitCancel b) := by
  simp [hasExitCancel, List.any_append]

/-- an exit-guard cancellation is in particular a cancellation -/
theorem hasCancel_of_exitCancel {es : List Ev} (h : hasExitCancel es = true) : hasCancel es = true := by
  unfold hasExitCancel at h
  unfold hasCancel
  rw [List.any_eq_true] at h ⊢
  obtain ⟨e, he, hx⟩ := h
  refine ⟨e, he, ?_⟩
  cases e with
  | act k a => cases a <;> first | rfl | (simp [Ev.isExitCancel] at hx)
  | _ => simp [Ev.isExitCancel] at hx

/-- an action's own events are log records only -/
theorem applyAction_only_logs (env : Env) (sid : Nat) (a : Action) (s : St) :
    ∀ e ∈ (applyAction env sid a s).2, ∃ j r, e = Ev.log j r := by
  have hl : ∀ (c : Core) (r : LogRec), ∀ e ∈ logEv env c r, ∃ j r', e = Ev.log j r' := by
    intro c r e he
    unfold logEv at he
    split at he
    · simp only [List.mem_singleton] at he; exact ⟨_, _, he⟩
    · cases he
  intro e he
  cases a with
  | changeTo d => exact hl _ _ e he
  | changeWith d p => exact hl _ _ e he
  | cancel => exact hl _ _ e he
  | succeed id => exact hl _ _ e he
  | fail id => exact hl _ _ e he
  | planAppend o d p =>
    cases p with
    | none => simp only [applyAction] at he; split at he <;> cases he
    | some p => simp only [applyAction] at he; split at he <;> cases he
  | planClear => cases he
  | planRemove m => cases he

/-- the actions of an entry-guard delivery are keyed to `entryGuard` -/
theorem noExitCancel_deliver_entry (env : Env) (sid : Nat) (cur pend : Tr) (s : St) :
    hasExitCancel (deliver env .entryGuard sid cur pend s).2 = false := by
  have hP : AllEv (fun e => e.isExitCancel = false) (deliver env .entryGuard sid cur pend) := by
    unfold deliver
    refine AllEv.seq (allEv_emit fun s x hx => ?_) (allEv_seqList ?_)
    · split at hx
      · unfold logEv at hx; split at hx
        · simp only [List.mem_singleton] at hx; rw [hx]; rfl
        · cases hx
      · cases hx
    · intro f hf
      obtain ⟨l, _, rfl⟩ := List.mem_map.mp hf
      intro s'
      rw [deliverLayer_eq]
      unfold layerBody
      refine AllEv.seq (allEv_emit fun s x hx => ?_) ?_ _
      · simp only [List.mem_singleton] at hx; rw [hx]; rfl
      · split
        · -- every act event of this layer carries the layer's key, whose method is entryGuard
          have : ∀ (as : List Action) (key : Key), key.method = .entryGuard →
              AllEv (fun e => e.isExitCancel = false) (runActions env Method.entryGuard.flavour sid key as) := by
            intro as
            induction as with
            | nil => intro key _; exact allEv_skip _
            | cons a as ih =>
              intro key hk
              unfold runActions
              refine AllEv.seq ?_ (ih key hk)
              split
              · refine AllEv.seq (allEv_emit fun s x hx => ?_) ?_
                · simp only [List.mem_singleton] at hx; rw [hx]
                  cases a <;> simp [Ev.isExitCancel, hk]
                · intro s x hx
                  obtain ⟨j, r, rfl⟩ := applyAction_only_logs env sid a s x hx
                  rfl
              · exact allEv_skip _
          exact this _ _ rfl
        · exact allEv_skip _
  unfold hasExitCancel
  rw [Bool.eq_false_iff]
  intro h
  rw [List.any_eq_true] at h
  obtain ⟨e, he, hx⟩ := h
  rw [hP s e he] at hx
  cases hx

/-- one round: an exit-guard cancellation means no entry guard is delivered in it -/
theorem guardRound_exit_veto (env : Env) (cur pend : Tr) (s : St)
    (h : hasExitCancel (guardRound env cur pend s).2 = true) :
    (guardRound env cur pend s).2.filter Ev.isEntryGuard = [] := by
  -- the round is the exit half followed (unless cancelled) by the entry-guard delivery
  have hsplit : (guardRound env cur pend s).2 = (exitHalf env cur pend s).2 ++
      (if (exitHalf env cur pend s).1.cancelled then [] else
        (deliver env .entryGuard (exitHalf env cur pend s).1.core.requested cur pend (exitHalf env cur pend s).1).2) := by
    unfold guardRound
    show ((exitHalf env cur pend ⋙ _) s).2 = _
    simp only [Step.seq]
    split <;> rfl
  by_cases hc : (exitHalf env cur pend s).1.cancelled = true
  · exact (C03_exit_veto_skips_entry env cur pend s hc).2
  · exfalso
    have hc' : (exitHalf env cur pend s).1.cancelled = false := by simpa using hc
    rw [hsplit, hc'] at h
    simp only [Bool.false_eq_true, if_false] at h
    rw [hasExitCancel_append, noExitCancel_deliver_entry, Bool.or_false] at h
    -- an exit cancel in the exit half sets the flag
    have ht : (exitHalf env cur pend s).1.cancelled = hasCancel (exitHalf env cur pend s).2 := by
      unfold exitHalf
      simp only [Step.seq, Step.modify, List.nil_append]
      have := tracks_deliver env .exitGuard s.core.active cur pend { s with ts := .none, cancelled := false }
      simpa using this
    rw [ht, hasCancel_of_exitCancel h] at hc'
    cases hc'

/-- every evaluated round of the loop -/
theorem substRoundEvs_exit_veto (env : Env) : ∀ (fuel : Nat) (cur : Tr) (s : St),
    ∀ es ∈ substRoundEvs (guardRound env) fuel cur s, hasExitCancel es = true → es.filter Ev.isEntryGuard = [] := by
  intro fuel
  induction fuel with
  | zero => intro _ _ es he; cases he
  | succ fuel ih =>
    intro cur s es he hx
    simp only [substRoundEvs] at he
    split at he
    · split at he
      · rcases List.mem_cons.mp he with rfl | he
        · exact guardRound_exit_veto env _ _ _ hx
        · exact ih _ _ es he hx
      · exact ih _ _ es he hx
    · cases he

/-- **C03 over whole histories — once the exit guard has cancelled, the entry guard is not consulted.**  Any world,
    `immediateChangeTo(d)`: in every guard round the call evaluates (`roundEvs`: the events of each round, in order —
    their concatenation is the guard part of the call's trace), an exit-guard callback that cancels means the round
    delivers no `entryGuard`. -/
theorem C03_history_exit_veto_skips_entry (cfg : Cfg) (beh : Beh) (i k d : Nat) (c : Core) :
    ∀ es ∈ roundEvs ⟨cfg, beh, i, k⟩ { core := { c with request := ⟨255, d, none⟩ } },
      hasExitCancel es = true → es.filter Ev.isEntryGuard = [] := by
  intro es he hx
  unfold roundEvs at he
  split at he
  · exact substRoundEvs_exit_veto _ _ _ _ es he hx
  · cases he

/-- non-vacuity: the exit guard of the active state cancels; the round consists of the exit guard's delivery only -/
example :
    let cfg : Cfg := { n := 2, L := 2, cap := 1 }
    let beh : Beh := fun k => if k.method = .exitGuard then [.cancel] else []
    let env : Env := ⟨cfg, beh, 0, 1⟩
    let c : Core := { (initCore cfg false) with active := 0 }
    (roundEvs env { core := { c with request := ⟨255, 1, none⟩ } }).map hasExitCancel = [true] ∧
    ((roundEvs env { core := { c with request := ⟨255, 1, none⟩ } }).map (fun es => (es.filter Ev.isEntryGuard).length)) = [0] := by
  decide

end FFSM2
