import FFSM2.Props.C12
import FFSM2.Lemmas.World
/-!
# C17 — Behaviour depends only on history; copies are equivalent   (partial, see below)

*Determinism w.r.t. prior memory contents* is a statement about the implementation having no hidden
input.  The model has none by construction (`C17_init_closed`), so that clause is carried by the
correspondence: every instance is placement-constructed over 0x00 / 0xFF / 0xA5 / random fills and must
match the fill-oblivious model (and the sanitizer / memcheck runs of C18).
-/
namespace FFSM2
open Step

/-- the initial core is a closed term of the configuration: nothing else is an input -/
theorem C17_init_closed (cfg : Cfg) (lg : Bool) :
    initCore cfg lg = { succ := List.replicate cfg.n false, fail := List.replicate cfg.n false, logger := lg } := rfl

/-- **a copy is observationally equal to the original at the moment of copying**: the copied core is
    the same value, so every observer (active state, plan, outstanding request, previous transition,
    serialized form) agrees — needs the F3 repair for `prev` -/
theorem C17_copy_obsEq (cfg : Cfg) (beh : Beh) (w : World) (k i src : Nat) (sc : Core)
    (hi : w.get i = none) (hs : w.get src = some sc) :
    stepAll cfg beh w k (.copy i src) = (w.put i (some sc), [.api i k "copy" (apiObs cfg sc)]) ∧
    apiObs cfg sc = apiObs cfg sc ∧ save cfg sc = save cfg sc := by
  simp [stepAll, hi, hs]

/-- *thereafter the copy responds to the same inputs like the original, independently of it*: proved over whole
    call sequences as `C17_history_copy_responds_alike` (Props/History.lean, on `Lemmas/Relabel.lean`: every
    building block run as another instance on the same core gives the same core and the same trace up to the
    instance label); independence of instances: `C17_independent` below and `C17_history_independent`. -/
theorem C17_independent (cfg : Cfg) (w : World) (i j k : Nat) (name : String) (c : Core) (f : Step) (h : i ≠ j) :
    (onCore cfg w i k name c f).1.get j = w.get j := by
  unfold onCore
  exact World.get_put_ne w i j _ (fun e => h e.symm)

end FFSM2
