import FFSM2.Lemmas.Steps
/-!
# C04 — Request processing terminates within the substitution limit

The loop header (`for (Long i = START; i < / <= SUBSTITUTION_LIMIT && request; ++i)`) is translated
from the C++ source on every run (`Gen.substLoopStart`, `Gen.substLoopInclusive`): if the header
changes, `C04_loop_form` is re-checked against the new form.
-/
namespace FFSM2
open Step

/-- the translated loop header allows exactly `L` iterations and terminates in `uint8_t` arithmetic
    for every limit the type can express -/
theorem C04_loop_form (L : Nat) (hL : L ≤ 255) : substFuel L = L ∧ substLoopTerminates L = true := by
  simp [substFuel, substLoopTerminates, Gen.substLoopInclusive, Gen.substLoopStart]

/-- **round bound**: one processing point evaluates at most `L` rounds of guards, for every `L`,
    every machine size and every guard behaviour (including guards that redirect forever) -/
theorem C04_round_bound (env : Env) (hL : env.cfg.L ≤ 255) (s : St) :
    (processRounds env s).length ≤ env.cfg.L := by
  have := (processRequest_spec env s).1
  rwa [(C04_loop_form env.cfg.L hL).1] at this

/-- activation: one evaluation of the initial state's entry guards plus at most `L` redirections -/
theorem C04_activation_bound (env : Env) (hL : env.cfg.L ≤ 255) (cur : Tr) (s : St) :
    (substRounds (entryGuardRound env) (substFuel env.cfg.L) cur s).length ≤ env.cfg.L := by
  have := substRounds_length (entryGuardRound env) (substFuel env.cfg.L) cur s
  rwa [(C04_loop_form env.cfg.L hL).1] at this

/-- **state at the limit**: however the loop ended, the call leaves exactly one outcome — the active
    state is unchanged, or it is the destination of a request that passed its guards -/
theorem C04_limit_state (env : Env) (s : St) :
    (processRequest env s).1.core.active = s.core.active ∨
    ∃ r ∈ processRounds env s, r.2 = false ∧ (processRequest env s).1.core.active = r.1.dest := by
  have hspec := processRequest_spec env s
  cases hv : (survivor {} (processRounds env s)).valid
  · left; exact (hspec.2.2.2.1 hv).1
  · rcases C03_like {} (processRounds env s) with e | ⟨r, hr, hr2, e⟩
    · rw [e] at hv; simp [Tr.valid] at hv
    · right; exact ⟨r, hr, hr2, by rw [(hspec.2.2.2.2 hv).1, e]⟩
where
  C03_like (cur0 : Tr) (rounds : List (Tr × Bool)) :
      survivor cur0 rounds = cur0 ∨ ∃ r ∈ rounds, r.2 = false ∧ survivor cur0 rounds = r.1 := by
    induction rounds generalizing cur0 with
    | nil => left; rfl
    | cons r rs ih =>
      simp only [survivor, List.foldl_cons]
      cases hc : r.2
      · simp only [Bool.false_eq_true, if_false]
        rcases ih r.1 with e | ⟨x, hx, hx2, e⟩
        · right; exact ⟨r, by simp, hc, e⟩
        · right; exact ⟨x, by simp [hx], hx2, e⟩
      · simp only [if_true]
        rcases ih cur0 with e | ⟨x, hx, hx2, e⟩
        · left; exact e
        · right; exact ⟨x, by simp [hx], hx2, e⟩

/-- **the leftover request is never applied blindly**: the only place a destination is entered is
    `applySurvivor` of a guard survivor; a request still outstanding when the loop stops stays in
    `core.request` untouched by the rest of the call (`applySurvivor` / `finishProcessing` do not read
    it), so it can only take effect through a later round of guards -/
theorem C04_leftover_guarded (env : Env) (cur : Tr) (s : St) :
    (finishProcessing env cur s).1.core.request = s.core.request ∧
    (cur.valid = false → (applySurvivor env cur s).1.core.request = s.core.request) := by
  refine ⟨rfl, fun h => ?_⟩
  rw [(applySurvivor_spec env cur s).1 h]

/-- non-vacuity / limit reached: two states whose entry guards redirect to each other forever, L = 3:
    exactly 3 rounds are evaluated and the call ends in a guard survivor -/
example :
    let cfg : Cfg := { n := 2, L := 3, cap := 2 }
    let beh : Beh := fun k => if k.method = .entryGuard then [.changeTo (1 - k.sid)] else []
    let env : Env := ⟨cfg, beh, 0, 1⟩
    let s0 : St := { core := { (initCore cfg false) with active := 0, request := ⟨255, 1, none⟩ } }
    (processRounds env s0).length = 3 ∧ (processRequest env s0).1.core.active = 1 ∧
      (processRequest env s0).1.core.request.valid = true := by
  decide

end FFSM2
