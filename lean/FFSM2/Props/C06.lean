import FFSM2.Lemmas.AllCb
/-!
# C06 — Control objects give a consistent view inside every callback

The model routes every observation a callback can make through `observe` and every request through
`applyAction` / `firePlan`; these theorems state what those definitions guarantee for every flavour,
state id and core.  That the C++ controls behave the same is the correspondence's job (every `cb` line
carries the full observation, for value / reference / pointer contexts).
-/
namespace FFSM2
open Step

/-- **own id** and **isActive agrees with the machine**, identically for every control flavour and
    every queried id (including 0 and inactive ids) — needs the F2 repair -/
theorem C06_view (env : Env) (fl : Flavour) (sid : Nat) (cur pend : Tr) (c : Core) :
    (observe env fl sid cur pend c).stateId = sid ∧
    (observe env fl sid cur pend c).machActive = c.active ∧
    (∀ j, j < env.cfg.n → (observe env fl sid cur pend c).ctlActive.getD j false = decide (c.active = j)) ∧
    (observe env fl sid cur pend c).request = c.request.canon := by
  refine ⟨rfl, rfl, fun j hj => ?_, rfl⟩
  simp [observe, List.getD_eq_getElem?_getD, hj, ctlIsActive, BEq.beq]

/-- the flavour does not matter for `isActive`: guard, plan, full and const controls answer alike -/
theorem C06_isActive_flavour_independent (env : Env) (fl fl' : Flavour) (sid : Nat) (cur pend : Tr) (c : Core) :
    (observe env fl sid cur pend c).ctlActive = (observe env fl' sid cur pend c).ctlActive := rfl

/-- **guards see the pending transition under evaluation and the transition accepted so far** -/
theorem C06_guard_view (env : Env) (sid : Nat) (cur pend : Tr) (c : Core) :
    (observe env .guard sid cur pend c).pending = some pend.canon ∧
    (observe env .guard sid cur pend c).current = some cur.canon := ⟨rfl, rfl⟩

/-- **every delivery event of `deliver env m sid …`** — for every layer (the state's own callback and
    each injection) — is keyed to `sid`, of method `m`, and its control reports `sid` as its id and the
    registry's activity -/
theorem C06_delivery_ids (env : Env) (m : Method) (sid : Nat) (cur pend : Tr) :
    AllCb (fun k _ o => k.sid = sid ∧ k.method = m ∧ o.stateId = sid ∧ o.ctlActive = (List.range env.cfg.n).map (fun j => o.machActive == j))
      (deliver env m sid cur pend) :=
  allCb_deliver env m sid cur pend (fun _ _ _ => ⟨rfl, rfl, rfl, rfl⟩)

/-- **a request made through a control records the calling state as its origin** (for plan-fired
    requests: the task's origin, see `firePlan_spec`) -/
theorem C06_origin (env : Env) (sid d : Nat) (p : Nat) (s : St) :
    (applyAction env sid (.changeTo d) s).1.core.request.origin = sid ∧
    (applyAction env sid (.changeWith d p) s).1.core.request.origin = sid ∧
    (extChange env d none s).1.core.request.origin = 255 := ⟨rfl, rfl, rfl⟩

end FFSM2
