/-
  FFSM2.Layout — the part of the Itanium C++ ABI layout rule that matters for `TransitionT<P>` /
  `TaskT<P>` (features/transition.hpp, features/task.hpp): a packed base of `baseSize` bytes (3 for
  `TransitionBase`: origin, destination, method; 2 for `TaskBase`), followed by
  `alignas(Payload) uint8_t storage[sizeof(Payload)]`, followed by `bool payloadSet` (C18, C07).
  `pack` is the `#pragma pack` value in force where the derived struct is DEFINED (1 before the F5
  repair, none = natural alignment after it).
-/
namespace FFSM2
namespace Layout

def alignUp (n a : Nat) : Nat := (n + a - 1) / a * a

/-- effective alignment of the `alignas(A)` member under `#pragma pack(pack)` (`none` = no pragma) -/
def memberAlign (A : Nat) (pack : Option Nat) : Nat :=
  match pack with
  | some k => min A k
  | none => A

def storageOffset (baseSize A : Nat) (pack : Option Nat) : Nat := alignUp baseSize (memberAlign A pack)
def structAlign (A : Nat) (pack : Option Nat) : Nat := memberAlign A pack
def structSize (baseSize A size : Nat) (pack : Option Nat) : Nat :=
  alignUp (storageOffset baseSize A pack + size + 1) (structAlign A pack)

end Layout
end FFSM2
