/-
  FFSM2.Ancestors — port of structure/ancestors_1.inl, ancestors_2.inl (`A_<TFirst, TRest...>::wide*`)
  and the call order inside structure/state_1.inl (`S_::deep*`), C15.
  A delivery to a state with injections `[I1..Ik]` is the list of layers whose callback runs, in
  order; `Layer.inj i` is the i-th injection (0-based), `Layer.own` the state's own callback.
-/
namespace FFSM2

inductive Method where
  | entryGuard | enter | reenter | preUpdate | update | postUpdate
  | preReact | react | postReact | query | exitGuard | exit | planSucceeded | planFailed
  deriving DecidableEq, Repr, Inhabited

namespace Ancestors

inductive Layer where
  | inj (i : Nat)
  | own
  deriving DecidableEq, Repr

/-- `A_<First, Rest...>::wideX`: `First::X; Rest::wideX` (and `A_<First>::wideX`: `First::X`) -/
def wideFwd : List Layer → List Layer
  | [] => []
  | x :: xs => x :: wideFwd xs

/-- `A_<First, Rest...>::wideX` for exit/postUpdate/postReact/exitGuard: `Rest::wideX; First::X` -/
def wideRev : List Layer → List Layer
  | [] => []
  | x :: xs => wideRev xs ++ [x]

def injections (k : Nat) : List Layer := (List.range k).map Layer.inj

/-- `S_::deepX`: the order in which the layers of one state receive method `m`
    (transcribed per method from state_1.inl). -/
def deep (k : Nat) : Method → List Layer
  | .entryGuard | .enter | .reenter | .preUpdate | .update | .preReact | .react =>
      wideFwd (injections k) ++ [.own]
  | .postUpdate | .postReact | .exit => .own :: wideRev (injections k)
  | .exitGuard => wideRev (injections k) ++ [.own]      -- wideExitGuard (reversed) then own
  | .query => .own :: wideFwd (injections k)            -- own then wideQuery (forward)
  | .planSucceeded | .planFailed => [.own]              -- wrapPlan*: no wide call

end Ancestors
end FFSM2
