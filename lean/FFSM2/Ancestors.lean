import FFSM2.Gen.Consts
/-
  FFSM2.Ancestors — port of structure/ancestors_1.inl, ancestors_2.inl (`A_<TFirst, TRest...>::wide*`)
  and the call order inside structure/state_1.inl (`S_::deep*`), C15.
  A delivery to a state with injections `[I1..Ik]` is the list of layers whose callback runs, in
  order; `Layer.inj i` is the i-th injection (0-based), `Layer.own` the state's own callback.
-/
namespace FFSM2

inductive Method where
  | entryGuard | enter | reenter | preUpdate | update | postUpdate
  | preReact | react | postReact | query | exitGuard | exit | planSucceeded | planFailed
  deriving DecidableEq, Repr, Inhabited

namespace Ancestors

inductive Layer where
  | inj (i : Nat)
  | own
  deriving DecidableEq, Repr

/-- `A_<First, Rest...>::wideX`: `First::X; Rest::wideX` (and `A_<First>::wideX`: `First::X`) -/
def wideFwd : List Layer → List Layer
  | [] => []
  | x :: xs => x :: wideFwd xs

/-- `A_<First, Rest...>::wideX` for exit/postUpdate/postReact/exitGuard: `Rest::wideX; First::X` -/
def wideRev : List Layer → List Layer
  | [] => []
  | x :: xs => wideRev xs ++ [x]

def injections (k : Nat) : List Layer := (List.range k).map Layer.inj

/-- position of the method in the library's `Method` enumeration order used by the translator -/
def _root_.FFSM2.Method.code : Method → Nat
  | .entryGuard => 0 | .enter => 1 | .reenter => 2 | .preUpdate => 3 | .update => 4 | .postUpdate => 5
  | .preReact => 6 | .react => 7 | .postReact => 8 | .query => 9 | .exitGuard => 10 | .exit => 11
  | .planSucceeded => 12 | .planFailed => 13

/-- `S_::deepX`: the order in which the layers of one state receive method `m`.  Both tables are
    **translated from the source on every run** (`Gen.ownFirstCodes`: the methods whose `S_::deepX` calls
    the state's own callback before `Head::wideX`; `Gen.restFirstCodes`: the methods whose
    `A_<First, Rest...>::wideX` calls `Rest::wideX` before `First::X`, i.e. runs the injections in reverse);
    `wrapPlanSucceeded` / `wrapPlanFailed` make no wide call. -/
def deep (k : Nat) (m : Method) : List Layer :=
  match m with
  | .planSucceeded | .planFailed => [.own]
  | _ =>
    let w := if Gen.restFirstCodes.contains m.code then wideRev (injections k) else wideFwd (injections k)
    if Gen.ownFirstCodes.contains m.code then .own :: w else w ++ [.own]

end Ancestors
end FFSM2
