import FFSM2.Driver.Containers
import FFSM2.Driver.MachineIO
open FFSM2.Driver

/-- generic stdin loop: one output line per input line; blank lines and `#` comments are skipped -/
partial def loop {σ : Type} (h : IO.FS.Stream) (out : IO.FS.Stream) (step : σ → List String → σ × String) (s : σ) : IO Unit := do
  let line ← h.getLine
  if line.isEmpty then return ()
  let ws := words line
  match ws with
  | [] => loop h out step s
  | w :: _ =>
    if w.startsWith "#" then loop h out step s else
    let (s', o) := step s ws
    out.putStrLn o
    loop h out step s'

/-- machine engine: reads whole cases (`case` / `cfg` / `beh` / `op` lines), prints the model's trace -/
partial def machineLoop (h : IO.FS.Stream) (cur : Option Case) : IO Unit := do
  let line ← h.getLine
  let flush (c : Option Case) : IO Unit := do
    match c with
    | some c => for l in runCase c do IO.println l
    | none => pure ()
  if line.isEmpty then
    flush cur
    return ()
  let ws := words line
  match ws with
  | [] => machineLoop h cur
  | "case" :: name :: _ => flush cur; machineLoop h (some { name := name })
  | "cfg" :: rest => machineLoop h (cur.map fun c => { c with cfg := parseCfg rest })
  | "beh" :: rest =>
    match parseBeh rest with
    | some e => machineLoop h (cur.map fun c => { c with beh := e :: c.beh })
    | none => IO.println s!"bad-beh {line.trimAscii.toString}"; machineLoop h cur
  | "op" :: rest =>
    match parseOp rest with
    | some o => machineLoop h (cur.map fun c => { c with ops := o :: c.ops })
    | none => IO.println s!"bad-op {line.trimAscii.toString}"; machineLoop h cur
  | _ => machineLoop h cur

def main (args : List String) : IO UInt32 := do
  let stdin ← IO.getStdin
  let stdout ← IO.getStdout
  match args with
  | ["bitstream"] => loop stdin stdout bsStep {}; return 0
  | ["bitarray"] => loop stdin stdout baStep {}; return 0
  | ["static"] => loop stdin stdout saStep {}; return 0
  | ["dynamic"] => loop stdin stdout daStep (FFSM2.Arrays.Dynamic.init 0 0); return 0
  | ["tasklist"] => loop stdin stdout tlStep {}; return 0
  | ["layout"] => for l in layoutLines do IO.println l
                  return 0
  | ["machine"] => machineLoop stdin none; return 0
  | ["dispatch", n] => for l in dispatchLines (nat! n) do IO.println l
                       return 0
  | ["ancestors", k] => for l in ancestorLines (nat! k) do IO.println l
                        return 0
  | _ => IO.eprintln "usage: driver <engine> [args]"; return 2
