import FFSM2.Driver.Containers
open FFSM2.Driver

/-- generic stdin loop: one output line per input line; blank lines and `#` comments are skipped -/
partial def loop {σ : Type} (h : IO.FS.Stream) (out : IO.FS.Stream) (step : σ → List String → σ × String) (s : σ) : IO Unit := do
  let line ← h.getLine
  if line.isEmpty then return ()
  let ws := words line
  match ws with
  | [] => loop h out step s
  | w :: _ =>
    if w.startsWith "#" then loop h out step s else
    let (s', o) := step s ws
    out.putStrLn o
    loop h out step s'

def main (args : List String) : IO UInt32 := do
  let stdin ← IO.getStdin
  let stdout ← IO.getStdout
  match args with
  | ["bitstream"] => loop stdin stdout bsStep {}; return 0
  | ["bitarray"] => loop stdin stdout baStep {}; return 0
  | ["static"] => loop stdin stdout saStep {}; return 0
  | ["dynamic"] => loop stdin stdout daStep (FFSM2.Arrays.Dynamic.init 0 0); return 0
  | ["tasklist"] => loop stdin stdout tlStep {}; return 0
  | ["dispatch", n] => for l in dispatchLines (nat! n) do IO.println l
                       return 0
  | ["ancestors", k] => for l in ancestorLines (nat! k) do IO.println l
                        return 0
  | _ => IO.eprintln "usage: driver <engine> [args]"; return 2
