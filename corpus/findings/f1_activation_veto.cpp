// F1 (activation variant): a vetoed redirect of the initial entry is entered anyway.
#define FFSM2_ENABLE_TRANSITION_HISTORY
#include <ffsm2/machine.hpp>
#include <cstdio>
using M = ffsm2::MachineT<ffsm2::Config::SubstitutionLimitN<2>>;
struct A; struct B;
using FSM = M::PeerRoot<A, B>;
static int entered = -1;
struct A : FSM::State {
	void entryGuard(GuardControl& c) { c.changeTo<B>(); }
	void enter(PlanControl&) { entered = 0; } };
struct B : FSM::State {
	void entryGuard(GuardControl& c) { c.cancelPendingTransition(); }
	void enter(PlanControl&) { entered = 1; } };
int main() {
	FSM::Instance m;
	std::printf("active=%d entered=%d prev.dest=%d\n", (int) m.activeStateId(), entered, (int) m.previousTransition().destination);
	return (m.activeStateId() == 0 && entered == 0 && m.previousTransition().destination == 255) ? 0 : 1;
}
