// F5: #pragma pack(1) spans TransitionT<P>/TaskT<P> and caps alignas(Payload) storage to 1, so the
// payload is constructed and read through a misaligned Payload* (C18, C07).
// Build with -fsanitize=undefined -fno-sanitize-recover=all; exit 0 = no misaligned access.
#define FFSM2_ENABLE_PLANS
#include <ffsm2/machine.hpp>
#include <cstdio>
#include <cstddef>
struct P { double d; int i; };
using M = ffsm2::MachineT<ffsm2::Config::PayloadT<P>>;
struct A; struct B;
using FSM = M::PeerRoot<A, B>;
static double seen = 0;
struct A : FSM::State {};
struct B : FSM::State { void enter(PlanControl& c) { if (c.currentTransition().payload()) seen = c.currentTransition().payload()->d; } };
int main() {
	using T = ffsm2::detail::TransitionT<P>;
	using K = ffsm2::detail::TaskT<P>;
	std::printf("alignof(P)=%zu alignof(Transition)=%zu offsetof(storage)=%zu | alignof(Task)=%zu offsetof(storage)=%zu\n",
		alignof(P), alignof(T), offsetof(T, storage), alignof(K), offsetof(K, storage));
	FSM::Instance m;
	m.changeWith<B>(P{1.5, 7});
	m.update();
	m.plan().changeWith<B, A>(P{2.5, 8});
	std::printf("seen=%g\n", seen);
	bool ok = alignof(T) % alignof(P) == 0 && offsetof(T, storage) % alignof(P) == 0
	       && alignof(K) % alignof(P) == 0 && offsetof(K, storage) % alignof(P) == 0 && seen == 1.5;
	return ok ? 0 : 1;
}
