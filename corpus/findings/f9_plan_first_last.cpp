// F9: PlanT<>::first() / last() (all four overloads) are declared in the public interface of the mutable plan view
// (Instance::plan(), PlanControl::plan(), FullControl::plan()) but defined nowhere: any program that uses them does
// not link (C10: "first()/last() ... consistent with that sequence"). Linking and running is the test; exit 0 = fixed.
#define FFSM2_ENABLE_PLANS
#include <ffsm2/machine.hpp>
using M = ffsm2::MachineT<ffsm2::Config::TaskCapacityN<4>>;
struct A; struct B; struct C;
using FSM = M::PeerRoot<A, B, C>;
struct A : FSM::State {};
struct B : FSM::State {};
struct C : FSM::State {};
int main() {
	FSM::Instance m;
	auto p = m.plan();
	p.change(0, 1); p.change(1, 2); p.change(2, 0);
	const auto& cp = p;
	int rc = 0;
	if (p.first().origin != 0 || p.first().destination != 1) rc |= 1;
	if (p.last().origin != 2 || p.last().destination != 0) rc |= 2;
	if (cp.first().origin != 0 || cp.last().origin != 2) rc |= 4;
	// after removing the first task through an iterator the view follows
	{ auto it = p.begin(); it.remove(); }
	if (p.first().origin != 1 || p.last().origin != 2) rc |= 8;
	return rc;
}
