// F4: BitArrayT::set() (set-all) also sets the padding bits of the last unit, so empty() is
// wrong after clearing every in-range index (C20).
#define FFSM2_ENABLE_PLANS
#include <ffsm2/machine.hpp>
#include <cstdio>
int main() {
	ffsm2::detail::BitArrayT<12> b;
	b.set();
	for (unsigned i = 0; i < 12; ++i) b.clear(i);
	std::printf("empty after set-all + clear(0..11) = %d (expected 1)\n", (int) b.empty());
	return b.empty() ? 0 : 1;
}
