// F10: CPlanT's friend list names R_ twice and omits ConstControlT, so ConstControlT::plan() -- the only view of the
// plan a query() callback has -- cannot be instantiated: "CPlanT(const PlanData&) is private within this context"
// (C10, C06). Compiling and running is the test; exit 0 = the const control shows the machine's plan.
#define FFSM2_ENABLE_PLANS
#include <ffsm2/machine.hpp>
struct Event {};
using M = ffsm2::MachineT<ffsm2::Config::TaskCapacityN<4>>;
struct A; struct B;
using FSM = M::PeerRoot<A, B>;
static int seen = -1, firstDest = -1;
struct A : FSM::State {
	void query(Event&, ConstControl& c) const {
		int n = 0; auto p = c.plan();
		for (auto it = p.begin(); it; ++it) ++n;
		seen = n; if (p) firstDest = p.first().destination;
	}
};
struct B : FSM::State {};
int main() {
	FSM::Instance m;
	m.plan().change(0, 1); m.plan().change(1, 0);
	Event e; m.query(e);
	return (seen == 2 && firstDest == 1) ? 0 : 1;
}
