// F7: FFSM2_ENABLE_SERIALIZATION + FFSM2_ENABLE_TRANSITION_HISTORY fails to compile:
// RV_<Manual> repeats 'using typename Base::PlanControl;' (C19, C12). Compiling is the test.
#define FFSM2_ENABLE_SERIALIZATION
#define FFSM2_ENABLE_TRANSITION_HISTORY
#include <ffsm2/machine.hpp>
using M = ffsm2::MachineT<ffsm2::Config::ManualActivation>;
struct A; struct B;
using FSM = M::PeerRoot<A, B>;
struct A : FSM::State {};
struct B : FSM::State {};
int main() {
	FSM::Instance m;
	m.enter();
	FSM::Instance::SerialBuffer buf;
	m.save(buf);
	FSM::Instance r;
	r.replayEnter(1);
	r.load(buf);
	int rc = (r.activeStateId() == 0) ? 0 : 1;
	m.exit(); r.exit();
	return rc;
}
