// F6: PlanDataT::planExists has no initialiser: a machine constructed over non-zero memory can
// deliver planSucceeded() although no task was ever added (C09, C17).
#define FFSM2_ENABLE_PLANS
#include <ffsm2/machine.hpp>
#include <cstdio>
#include <cstring>
#include <initializer_list>
#include <new>
using M = ffsm2::Machine;
struct R; struct A;
using FSM = M::Root<R, A>;
static int succeededCalls = 0;
struct R : FSM::State { void planSucceeded(FullControl&) { ++succeededCalls; } };
struct A : FSM::State {};
int main() {
	int rc = 0;
	for (int fill : {0x00, 0xFF, 0xA5}) {
		alignas(FSM::Instance) unsigned char buf[sizeof(FSM::Instance)];
		std::memset(buf, fill, sizeof(buf));
		succeededCalls = 0;
		FSM::Instance* m = new (buf) FSM::Instance;
		m->succeed(0);
		m->update();
		std::printf("fill=%02x planSucceeded calls=%d (expected 0)\n", fill, succeededCalls);
		if (succeededCalls) rc = 1;
		m->~InstanceT();
	}
	return rc;
}
