// F8: TaskStatus::Result misaligned inside pack(1) (C18). Build: g++ -std=c++11 -O0 -fsanitize=undefined -fno-sanitize-recover=all -I/repo/include; exit 0 = clean
#define FFSM2_ENABLE_PLANS
#include <ffsm2/machine.hpp>
#include <cstdio>
using M = ffsm2::Machine;
struct R; struct A; struct B;
using FSM = M::Root<R, A, B>;
struct R : FSM::State { void update(FullControl& c) { c.succeed(0); } };
struct A : FSM::State { void update(FullControl& c) { c.succeed(); } };
struct B : FSM::State {};
int main() { FSM::Instance m; m.plan().change<A, B>(); m.update(); std::printf("active=%d\n", (int) m.activeStateId()); return 0; }
