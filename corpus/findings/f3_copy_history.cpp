// F3: CoreT copy/move constructors omit previousTransition (C17, C11).
#define FFSM2_ENABLE_TRANSITION_HISTORY
#include <ffsm2/machine.hpp>
#include <cstdio>
using M = ffsm2::Machine;
struct A; struct B;
using FSM = M::PeerRoot<A, B>;
struct A : FSM::State {};
struct B : FSM::State {};
int main() {
	FSM::Instance m;
	m.immediateChangeTo<B>();
	FSM::Instance c{m};
	FSM::Instance mv{static_cast<FSM::Instance&&>(FSM::Instance{m})};
	std::printf("orig prev.dest=%d copy prev.dest=%d moved prev.dest=%d\n", (int) m.previousTransition().destination,
		(int) c.previousTransition().destination, (int) mv.previousTransition().destination);
	return (c.previousTransition() == m.previousTransition() && mv.previousTransition() == m.previousTransition()) ? 0 : 1;
}
