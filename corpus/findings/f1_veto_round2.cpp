// F1: a veto issued in guard round >= 2 is not honoured (C02 C03 C04 C11).
// Build: g++ -std=c++11 -I/repo/include f1_veto_round2.cpp && ./a.out   (exit 0 = property holds)
#define FFSM2_ENABLE_TRANSITION_HISTORY
#include <ffsm2/machine.hpp>
#include <cstdio>
using M = ffsm2::Machine;
struct A; struct B; struct C;
using FSM = M::PeerRoot<A, B, C>;
static int entered = -1;
struct A : FSM::State { void enter(PlanControl&) { entered = 0; } };
struct B : FSM::State {
	void entryGuard(GuardControl& c) { c.changeTo<C>(); }          // redirect, no cancel
	void enter(PlanControl&) { entered = 1; } };
struct C : FSM::State {
	void entryGuard(GuardControl& c) { c.cancelPendingTransition(); } // veto in round 2
	void enter(PlanControl&) { entered = 2; } };
int main() {
	FSM::Instance m;
	m.immediateChangeTo<B>();
	std::printf("active=%d entered=%d prev.dest=%d\n", (int) m.activeStateId(), entered, (int) m.previousTransition().destination);
	// survivor is A->B (round 1 passed); C was vetoed and must not be entered
	return (m.activeStateId() == 1 && entered == 1 && m.previousTransition().destination == 1) ? 0 : 1;
}
