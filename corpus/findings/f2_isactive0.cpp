// F2: control.isActive(0) is true whenever the machine is active (C06), and updatePlan()
// therefore skips over a head task whose origin is state 0 (C08).
#define FFSM2_ENABLE_PLANS
#include <ffsm2/machine.hpp>
#include <cstdio>
using M = ffsm2::Machine;
struct A; struct B; struct C;
using FSM = M::PeerRoot<A, B, C>;
static bool ctrlSays0 = false;
struct A : FSM::State {};
struct B : FSM::State { void update(FullControl& c) { ctrlSays0 = c.isActive(0); } };
struct C : FSM::State {};
int main() {
	FSM::Instance m;
	m.immediateChangeTo<B>();
	m.update();
	std::printf("machine.isActive(0)=%d control.isActive(0)=%d\n", (int) m.isActive(0), (int) ctrlSays0);
	int rc = (m.isActive(0) == ctrlSays0) ? 0 : 1;
	// plan [A->C, B->A]; B succeeds; the first task's origin (A) is not active => nothing may fire
	m.plan().change(0, 2);
	m.plan().change(1, 0);
	m.succeed(1);
	m.update();
	std::printf("active after plan step=%d (expected 1)\n", (int) m.activeStateId());
	if (m.activeStateId() != 1) rc = 1;
	return rc;
}
