// Public-API completeness: every documented member of the machine, of the four control flavours and of both plan views
// (id forms, template forms, const overloads, iterators) is instantiated, linked and run once, for the context kind given
// by -DCTXT / -DCTXARG.  Built and run by the C19 check; exit 0 and "ok" = every member is usable.
#define FFSM2_ENABLE_PLANS
#define FFSM2_ENABLE_SERIALIZATION
#define FFSM2_ENABLE_TRANSITION_HISTORY
#define FFSM2_ENABLE_LOG_INTERFACE
#include <ffsm2/machine.hpp>
#include <cstdio>
struct Ctx { int v; };
struct Pay { double d; int i; };
struct Ev { int e; };
using M = ffsm2::MachineT<ffsm2::Config::ContextT<CTXT>::ManualActivation::PayloadT<Pay>::TaskCapacityN<4>>;
struct R; struct A; struct B;
using FSM = M::Root<R, A, B>;
template <typename C> static auto planOf(const C& c) -> decltype(c.plan()) { return c.plan(); }
template <typename C> static void constViews(C& c) {
	const C& cc = c;
	(void) cc.stateId(); (void) cc._(); (void) cc.context(); (void) cc.request();
	(void) cc.isActive(0); (void) cc.template isActive<A>(); (void) C::template stateId<B>();
	auto p = planOf(cc); (void) static_cast<bool>(p);
	for (auto it = p.begin(); it; ++it) { (void) it->origin; (void) (*it).destination; (void) it.next(); }
	if (p) { (void) p.first(); (void) p.last(); }
	(void) cc.previousTransitions();
}
template <typename C> static void mutViews(C& c) {
	(void) c._(); (void) c.context();
	auto p = c.plan();
	for (auto it = p.begin(); it; ++it) { (void) it->origin; (void) (*it).destination; (void) it.next(); }
	const auto& cp = p;
	for (auto it = cp.begin(); it; ++it) { (void) it->origin; (void) (*it).destination; (void) it.next(); }
	if (p) { (void) p.first(); (void) p.last(); (void) cp.first(); (void) cp.last(); }
	(void) p.end(); (void) cp.end();
	(void) c.currentTransition();
}
struct R : FSM::State {
	void entryGuard(GuardControl& c) { constViews(c); mutViews(c); (void) c.pendingTransition(); }
	void update(FullControl& c) { constViews(c); mutViews(c); c.changeTo<B>(); c.changeWith<B>(Pay{1, 2}); c.changeWith(1, Pay{1,2}); c.succeed<A>(); c.fail<A>(); c.succeed(1); c.fail(1); }
	void planSucceeded(FullControl& c) { c.plan().clear(); }
	void planFailed(FullControl&) {}
};
struct A : FSM::State {
	void enter(PlanControl& c) { constViews(c); mutViews(c); c.plan().change<A>(1); c.plan().change<A, B>(); c.plan().changeWith<A>(1, Pay{1,2}); c.plan().changeWith<A, B>(Pay{1,2}); c.plan().changeWith(0, 1, Pay{3,4}); }
	void react(const Ev&, FullControl& c) { c.succeed(); c.fail(); }
	void query(Ev&, ConstControl& c) const { constViews(c); }
};
struct B : FSM::State { void exitGuard(GuardControl& c) { c.cancelPendingTransition(); } };
int main() {
	Ctx ctx{1};
	FSM::Instance m{CTXARG};
	const FSM::Instance& cm = m;
	m.enter();
	Ev e{1};
	m.update(); m.react(e); m.query(e); cm.query(e);
	m.changeTo<B>(); m.changeTo(1); m.immediateChangeTo<A>(); m.immediateChangeTo(0);
	m.changeWith<B>(Pay{1,2}); m.changeWith(1, Pay{1,2}); m.immediateChangeWith<A>(Pay{1,2}); m.immediateChangeWith(0, Pay{1,2});
	(void) cm.activeStateId(); (void) cm.isActive(1); (void) cm.isActive<A>(); (void) cm.isActive(); (void) FSM::Instance::stateId<A>();
	(void) m.access<A>(); (void) cm.access<A>(); (void) m.context(); (void) cm.context();
	{ auto p = m.plan(); p.change(0,1); p.change<A>(1); p.change<A,B>(); p.changeWith(0,1,Pay{1,2}); if (p) { (void) p.first(); (void) p.last(); } for (auto it = p.begin(); it; ++it) it.remove(); p.clear(); }
	{ auto p = cm.plan(); if (p) { (void) p.first(); (void) p.last(); } for (auto it = p.begin(); it; ++it) {} }
	m.succeed(0); m.fail(1); m.succeed<A>(); m.fail<B>();
	(void) cm.previousTransition(); m.replayTransition(1);
	FSM::Instance::SerialBuffer b; cm.save(b); m.load(b);
	m.attachLogger(nullptr);
	FSM::Instance copy{m};
	FSM::Instance r{CTXARG}; r.replayEnter(1); r.exit();
	m.exit(); (void) m.isActive();
	std::printf("ok\n");
	return 0;
}
