#!/usr/bin/env python3
"""setup_cmd: builds everything the checks need from files on disk only (offline):
the translated definitions, the Lean library (all proofs) and the model driver executable.
Harness binaries are NOT prebuilt: every check compiles them against /repo's current tree."""
import os, subprocess, sys
HERE = os.path.dirname(os.path.abspath(__file__))
def sh(cmd, cwd=None):
    print("+", " ".join(cmd), flush=True)
    return subprocess.call(cmd, cwd=cwd)
rc = sh([sys.executable, os.path.join(HERE, "tools", "translate.py")])
rc |= sh(["lake", "build", "driver"], cwd=os.path.join(HERE, "lean"))
rc2 = sh(["lake", "build", "FFSM2"], cwd=os.path.join(HERE, "lean"))
# a failing proof is reported by the check of the property it belongs to, not by setup
sys.exit(1 if rc else 0)
