#!/usr/bin/env python3
"""check.py <Cxx> [--tier quick|thorough] [--replay FILE]

One entry point for every property.  A run (see DESIGN.md §8):
  1. translate   /repo sources -> lean/FFSM2/Gen/Consts.lean
  2. prove       lake build of the property's theorem module + stranger's audit + #print axioms
  3. harness     compile the C++ correspondence harness against /repo's CURRENT headers
  4. correspond  same inputs through the real code and the Lean model's executable definitions; diff
  5. decide      broken obligation or disagreement -> search for a concrete failing input (property
                 oracle / monitor on the implementation's behaviour) -> VIOLATION line + replay file
  6. evidence    evidence/<Cxx>.json

Exit 0: the property held on everything explored and every obligation is discharged.
Exit 1: a line `VIOLATION property=<id> replay=<path>[ no-failing-input-found]` was printed.
"""
import argparse, json, os, random, sys, time

sys.path.insert(0, os.path.dirname(os.path.abspath(__file__)))
from vlib import common as C
from vlib import props


def main():
    ap = argparse.ArgumentParser()
    ap.add_argument("prop")
    ap.add_argument("--tier", default=os.environ.get("VERIF_TIER", "quick"), choices=["quick", "thorough"])
    ap.add_argument("--replay", default=None)
    a = ap.parse_args()
    seed = int(os.environ.get("VERIF_SEED", "1"))
    prop = a.prop.upper()
    if prop not in props.REGISTRY:
        print("unknown property %s (known: %s)" % (prop, " ".join(sorted(props.REGISTRY))))
        return 2
    t0 = time.time()
    with C.Lock():
        ctx = props.Context(prop, a.tier, seed, a.replay)
        rc = props.run_property(ctx)
    C.log("%s tier=%s seed=%d wall=%.1fs exit=%d" % (prop, a.tier, seed, time.time() - t0, rc))
    return rc


if __name__ == "__main__":
    sys.exit(main())
