#!/usr/bin/env python3
"""translate.py — regenerates lean/FFSM2/Gen/*.lean from /repo's CURRENT sources.

What is translated (table-like / formula-like code only; everything with control flow is tied to
the model by the correspondence harness instead):

  * the `bitWidth()` conditional chain            (shared/utility.hpp)      -> Gen.bitWidth
  * `contain()`                                   (shared/utility.hpp)      -> Gen.contain
  * id widths / INVALID ids                       (shared/utility.hpp)      -> Gen.INVALID_ID ...
  * UBitWidth<> thresholds                        (shared/utility.hpp)      -> Gen.typeBits
  * SERIAL_BITS / ACTIVE_BITS / WIDTH_BITS        (structure/forward.hpp)   -> Gen.serialBits ...
  * TASK_CAPACITY defaulting rule                 (structure/forward.hpp)   -> Gen.taskCapacity
  * default SUBSTITUTION_LIMIT                    (root_0.hpp / config)     -> Gen.defaultSubstitutionLimit
  * the list-halving expressions and the prong comparison
        LHalfTypes/RHalfTypes (shared/type_list.hpp), RHalfCST offsets (structure/forward.hpp),
        R_PRONG and `prong < R_PRONG` (structure/composite_sub_1.{hpp,inl})  -> Gen.half* / Gen.goesLeft
  * BYTE_COUNT of the stream buffer               (shared/bit_stream.hpp)   -> Gen.byteCount
  * BitArray UNIT_COUNT                           (containers/bit_array.hpp)-> Gen.unitCount
  * call-order tables of S_::deepX / A_::wideX / C_::deepX (structure/*.inl)   -> Gen.ownFirstCodes / restFirstCodes / headFirstCodes
  * the reset statements of R_::load(ReadStream&) and R_::finalExit(), each with the feature switch it is
    compiled under and its position relative to the lifecycle delivery (root_0.inl)  -> Gen.loadSteps / Gen.exitSteps

Both the development sources and the amalgamated include/ffsm2/machine.hpp are parsed; the result
must be identical, otherwise the translator fails closed (the two header variants disagree).

Fails closed (exit 2, message naming the construct) when an expression leaves the supported
arithmetic subset.  Output files are rewritten only when their content changes.
"""
import json, os, re, sys

REPO = os.environ.get("REPO", "/repo")
HERE = os.path.dirname(os.path.abspath(__file__))
OUT = os.path.join(os.path.dirname(HERE), "lean", "FFSM2", "Gen")


class TranslateError(Exception):
    pass


# ------------------------------------------------------------------ tiny C++ expression -> Lean
TOK = re.compile(r"\s*(?:(\d+)(?:ull|ul|u|ULL|UL|U)?|(sizeof\s*\.\.\.\s*\(\s*\w+\s*\))|"
                 r"(static_cast\s*<[^<>]*>)|([A-Za-z_][\w:]*)|(<<|>>|==|!=|<=|>=|[-+*/()<>?:]))")


def tokenize(s):
    pos, out = 0, []
    s = s.strip()
    while pos < len(s):
        m = TOK.match(s, pos)
        if not m or m.end() == pos:
            raise TranslateError("cannot tokenize %r at %r" % (s, s[pos:pos + 20]))
        pos = m.end()
        if m.group(1) is not None:
            out.append(("num", m.group(1)))
        elif m.group(2):
            out.append(("id", "sizeof..."))
        elif m.group(3):
            out.append(("cast", m.group(3)))
        elif m.group(4):
            out.append(("id", m.group(4)))
        else:
            out.append(("op", m.group(5)))
    return out


class Parser:
    """precedence: ?: < (== != < <= > >=) < (<< >>) < (+ -) < (* /) < primary"""

    def __init__(self, toks, env):
        self.t, self.i, self.env = toks, 0, env

    def peek(self):
        return self.t[self.i] if self.i < len(self.t) else (None, None)

    def eat(self, kind=None, val=None):
        k, v = self.peek()
        if (kind and k != kind) or (val and v != val):
            raise TranslateError("expected %s %s, got %s %s" % (kind, val, k, v))
        self.i += 1
        return v

    def expr(self):
        c = self.cmp()
        if self.peek() == ("op", "?"):
            self.eat()
            a = self.expr()
            self.eat("op", ":")
            b = self.expr()
            return "(if %s then %s else %s)" % (c, a, b)
        return c

    def cmp(self):
        a = self.shift()
        k, v = self.peek()
        if k == "op" and v in ("==", "!=", "<", "<=", ">", ">="):
            self.eat()
            b = self.shift()
            op = {"==": "=", "!=": "≠", "<": "<", "<=": "≤", ">": ">", ">=": "≥"}[v]
            return "(%s %s %s)" % (a, op, b)
        return a

    def shift(self):
        a = self.add()
        while self.peek()[0] == "op" and self.peek()[1] in ("<<", ">>"):
            v = self.eat()
            b = self.add()
            a = "(%s %s %s)" % (a, "<<<" if v == "<<" else ">>>", b)
        return a

    def add(self):
        a = self.mul()
        while self.peek()[0] == "op" and self.peek()[1] in ("+", "-"):
            v = self.eat()
            b = self.mul()
            a = "(%s %s %s)" % (a, v, b)
        return a

    def mul(self):
        a = self.prim()
        while self.peek()[0] == "op" and self.peek()[1] in ("*", "/"):
            v = self.eat()
            b = self.prim()
            a = "(%s %s %s)" % (a, v, b)
        return a

    def prim(self):
        k, v = self.peek()
        if k == "num":
            self.eat()
            return v
        if k == "cast":
            self.eat()
            self.eat("op", "(")
            e = self.expr()
            self.eat("op", ")")
            return e
        if k == "id":
            self.eat()
            if v not in self.env:
                raise TranslateError("identifier %r outside the supported subset (known: %s)" % (v, sorted(self.env)))
            return self.env[v]
        if k == "op" and v == "(":
            self.eat()
            e = self.expr()
            self.eat("op", ")")
            return e
        raise TranslateError("unexpected token %s %s" % (k, v))


def cxx_to_lean(expr, env):
    p = Parser(tokenize(expr), env)
    e = p.expr()
    if p.i != len(p.t):
        raise TranslateError("trailing tokens in %r" % expr)
    return e


# ------------------------------------------------------------------ source access
def read(path):
    with open(path, encoding="utf-8-sig") as f:
        return f.read()


def strip_comments(s):
    s = re.sub(r"/\*.*?\*/", " ", s, flags=re.S)
    return re.sub(r"//[^\n]*", "", s)


def find1(rx, text, what, flags=re.S):
    ms = list(re.finditer(rx, text, flags))
    if len(ms) == 0:
        raise TranslateError("construct not found: " + what)
    vals = {m.groups() for m in ms}
    if len(vals) != 1:
        raise TranslateError("construct ambiguous (%d different forms): %s: %s" % (len(vals), what, sorted(vals)))
    return ms[0]


def _try(group, fn, failed):
    try:
        fn()
    except TranslateError as e:
        failed[group] = str(e)


def extract(text, variant):
    """returns (defs, failed): defs maps name -> (signature, body); failed maps group -> message.
    Each group of constructs is extracted independently so that a change in one construct only
    breaks the obligations of the properties that depend on it."""
    d, failed = {}, {}
    t = strip_comments(text)

    def g_bitwidth():
        # ---- bitWidth chain
        m = find1(r"\bbitWidth\s*\(\s*const\s+uint32_t\s+(\w+)\s*\)\s*noexcept\s*\{\s*return(.*?);\s*\}", t, "bitWidth()")
        var, body = m.group(1), m.group(2)
        arms = [a.strip() for a in body.split(":")]
        lean = []
        for a in arms[:-1]:
            if "?" not in a:
                raise TranslateError("bitWidth arm without '?': %r" % a)
            c, r = a.split("?")
            lean.append("  if %s then %s else" % (cxx_to_lean(c, {var: "v"}).strip("()") if False else cxx_to_lean(c, {var: "v"}),
                                                   cxx_to_lean(r, {var: "v"})))
        lean.append("  %s" % cxx_to_lean(arms[-1], {var: "v"}))
        d["bitWidth"] = ("(v : Nat) : Nat", "\n" + "\n".join(lean))
        d["bitWidthArms"] = ("", str(len(arms)))

    _try('bitwidth', g_bitwidth, failed)

    def g_contain():
        # ---- contain
        m = find1(r"\bcontain\s*\(\s*const\s+T\s+(\w+)\s*,\s*const\s+TT\s+(\w+)\s*\)\s*noexcept\s*\{\s*return(.*?);\s*\}", t, "contain()")
        d["contain"] = ("(x to : Nat) : Nat", cxx_to_lean(m.group(3), {m.group(1): "x", m.group(2): "to"}))

    _try('contain', g_contain, failed)

    def g_ids():
        # ---- id types and invalid ids
        widths = {}
        for name in ("Short", "Long", "StateID", "Prong"):
            m = find1(r"^using\s+%s\s*=\s*(\w+)\s*;" % name, t, "using %s" % name, re.M)
            ty = m.group(1)
            seen = 0
            while ty in widths or ty in ("Short", "Long"):
                if ty in widths:
                    break
                seen += 1
                if seen > 4:
                    raise TranslateError("typedef chain for %s" % name)
                ty = find1(r"using\s+%s\s*=\s*(\w+)\s*;" % ty, t, "using " + ty).group(1)
            bits = widths.get(ty) or {"uint8_t": 8, "uint16_t": 16, "uint32_t": 32}.get(ty)
            if bits is None:
                raise TranslateError("id type %s = %s unsupported" % (name, ty))
            widths[name] = bits
            d["bits" + name] = ("", str(bits))
        for cname, ty in (("INVALID_SHORT", "Short"), ("INVALID_LONG", "Long"), ("INVALID_STATE_ID", "StateID"), ("INVALID_PRONG", "Prong")):
            m = find1(r"%s\s*=\s*([^;]+);" % cname, t, cname)
            rhs = m.group(1).strip()
            m2 = re.fullmatch(r"(\w+)\s*\(\s*-\s*1\s*\)", rhs)
            m3 = re.fullmatch(r"UINT(8|16|32)_MAX", rhs)
            if m2 and m2.group(1) in widths:
                d[cname] = ("", "(2 ^ %d - 1)" % widths[m2.group(1)])
            elif m3:
                d[cname] = ("", "(2 ^ %s - 1)" % m3.group(1))
            elif rhs in ("INVALID_SHORT", "INVALID_LONG"):
                d[cname] = ("", d[rhs][1])
            else:
                raise TranslateError("%s = %s unsupported" % (cname, rhs))

    _try('ids', g_ids, failed)

    def g_typebits():
        # ---- UBitWidth thresholds
        m = find1(r"using\s+UBitWidth\s*=\s*Conditional<\s*N\s*<=\s*(\d+)\s*,\s*uint(\d+)_t\s*,\s*Conditional<\s*N\s*<=\s*(\d+)\s*,\s*uint(\d+)_t\s*,"
                  r"\s*Conditional<\s*N\s*<=\s*(\d+)\s*,\s*uint(\d+)_t\s*,\s*void\s*>\s*>\s*>\s*;", t, "UBitWidth<>")
        a, ab, b, bb, c, cb = m.groups()
        d["typeBits"] = ("(w : Nat) : Nat", "if w ≤ %s then %s else if w ≤ %s then %s else %s" % (a, ab, b, bb, cb))
        d["typeBitsMaxWidth"] = ("", c)

    _try('typebits', g_typebits, failed)

    def g_serial():
        # ---- serialization widths
        m = find1(r"WIDTH_BITS\s*=\s*static_cast<Long>\s*\(\s*(bitWidth\s*\(\s*WIDTH\s*\))\s*\)\s*;", t, "CI_::WIDTH_BITS")
        d["widthBits"] = ("(width : Nat) : Nat", "bitWidth width")
        find1(r"static\s+constexpr\s+Long\s+ACTIVE_BITS\s*=\s*(Apex::ACTIVE_BITS)\s*;", t, "RF_::ACTIVE_BITS = Apex::ACTIVE_BITS")
        # two definitions exist (CI_: = WIDTH_BITS ; RF_: = Apex::ACTIVE_BITS); handle separately
        m = find1(r"ACTIVE_BITS\s*=\s*(WIDTH_BITS)\s*;", t, "CI_::ACTIVE_BITS = WIDTH_BITS")
        d["activeBits"] = ("(width : Nat) : Nat", "widthBits width")
        m = find1(r"SERIAL_BITS\s*=\s*([^;]*ACTIVE_BITS[^;]*);", t, "RF_::SERIAL_BITS")
        d["serialBits"] = ("(width : Nat) : Nat", cxx_to_lean(m.group(1), {"ACTIVE_BITS": "(activeBits width)"}))
        m = find1(r"stream\.template\s+write<\s*(\w+)\s*>\s*\(\s*registry\.active\s*\)", t, "deepSaveActive write width")
        if m.group(1) != "WIDTH_BITS":
            raise TranslateError("deepSaveActive writes <%s>, expected WIDTH_BITS" % m.group(1))
        m = find1(r"requested\s*=\s*stream\.template\s+read<\s*(\w+)\s*>\s*\(\s*\)", t, "deepLoadRequested read width")
        if m.group(1) != "WIDTH_BITS":
            raise TranslateError("deepLoadRequested reads <%s>, expected WIDTH_BITS" % m.group(1))
        ms = re.findall(r"stream\.template\s+write<\s*(\d+)\s*>\s*\(\s*(\d+)\s*\)", t)
        d["activityBitWrites"] = ("", "[" + ", ".join("(%s, %s)" % x for x in ms) + "]")
        ms = re.findall(r"stream\.template\s+read<\s*(\d+)\s*>\s*\(\s*\)", t)
        d["activityBitReads"] = ("", "[" + ", ".join(ms) + "]")

    _try('serial', g_serial, failed)

    def g_config():
        # ---- task capacity rule, default substitution limit
        m = find1(r"TASK_CAPACITY\s*=\s*(Config::TASK_CAPACITY\s*!=\s*INVALID_LONG\s*\?[^;]+);", t, "RF_::TASK_CAPACITY")
        d["taskCapacity"] = ("(configured stateCount : Nat) : Nat",
                             cxx_to_lean(m.group(1), {"Config::TASK_CAPACITY": "configured", "INVALID_LONG": "INVALID_LONG",
                                                      "Apex::STATE_COUNT": "stateCount"}))
        m = find1(r"using\s+Config\s*=\s*detail::G_<\s*FFSM2_FEATURE_TAG\s*,\s*EmptyContext\s*,\s*Automatic\s*,\s*(\d+)\s*FFSM2_IF_PLANS\(\s*,\s*(\w+)\s*\)\s*,\s*void\s*>\s*;",
                  t, "default Config")
        d["defaultSubstitutionLimit"] = ("", m.group(1))
        d["defaultTaskCapacity"] = ("", cxx_to_lean(m.group(2), {"INVALID_LONG": "INVALID_LONG"}))
        loops = re.findall(r"for\s*\(\s*Long\s+i\s*=\s*(\d+)\s*;\s*i\s*(<=|<)\s*SUBSTITUTION_LIMIT\s*&&\s*_core\.request\s*;\s*\+\+i\s*\)", t)
        uses = len(re.findall(r"SUBSTITUTION_LIMIT\s*&&", t))
        if not loops or len(loops) != uses:
            raise TranslateError("substitution loops: %d of %d loop headers have the form 'for (Long i = K; i </<= SUBSTITUTION_LIMIT && _core.request; ++i)'" % (len(loops), uses))
        if len(set(loops)) != 1:
            raise TranslateError("the substitution loops differ from each other: %s" % sorted(set(loops)))
        d["substitutionLoopCount"] = ("", str(len(loops)))
        d["substLoopStart"] = ("", loops[0][0])
        d["substLoopInclusive"] = ("", "true" if loops[0][1] == "<=" else "false")

    _try('config', g_config, failed)

    def g_halving():
        # ---- halving
        env = {"sizeof...": "n"}
        m = find1(r"using\s+LHalfTypes\s*=\s*LowerTypes<\s*([^,]+),\s*0\s*,\s*Ts\.\.\.\s*>\s*;", t, "LHalfTypes")
        d["halfL"] = ("(n : Nat) : Nat", cxx_to_lean(m.group(1), env))
        m = find1(r"using\s+RHalfTypes\s*=\s*UpperTypes<\s*([^,]+),\s*0\s*,\s*Ts\.\.\.\s*>\s*;", t, "RHalfTypes")
        d["halfR"] = ("(n : Nat) : Nat", cxx_to_lean(m.group(1), env))
        m = find1(r"struct\s+LowerT<NHalf,\s*NIndex,\s*TFirst,\s*TRest\.\.\.>\s*final\s*\{.*?Conditional<\s*\(\s*NIndex\s*(<|<=|>|>=)\s*NHalf\s*\)\s*,\s*PrependTypes<TFirst,\s*LTypeList>\s*,\s*LTypeList\s*>", t, "LowerT keep rule")
        d["lowerKeeps"] = ("(index half : Nat) : Bool", "decide (index %s half)" % m.group(1).replace("<=", "≤").replace(">=", "≥"))
        m = find1(r"struct\s+UpperT<NHalf,\s*NIndex,\s*TFirst,\s*TRest\.\.\.>\s*final\s*\{.*?Conditional<\s*\(\s*NIndex\s*(<|<=|>|>=)\s*NHalf\s*\)\s*,\s*UpperTypes<NHalf,\s*NIndex\s*\+\s*1\s*,\s*TRest\.\.\.>\s*,\s*TL_<TFirst,\s*TRest\.\.\.>\s*>", t, "UpperT skip rule")
        d["upperSkips"] = ("(index half : Nat) : Bool", "decide (index %s half)" % m.group(1).replace("<=", "≤").replace(">=", "≥"))
        m = find1(r"struct\s+RHalfCST<NN,\s*TA,\s*NI,\s*TL_<TS\.\.\.>>\s*final\s*\{\s*using\s+Type\s*=\s*CS_<\s*([^,]+),\s*TA\s*,\s*([^,]+),\s*RHalfTypes<TS\.\.\.>\s*>\s*;", t, "RHalfCST")
        d["rStateId"] = ("(base n : Nat) : Nat", cxx_to_lean(m.group(1), {"NN": "base", "sizeof...": "n"}))
        d["rProngIndex"] = ("(prong n : Nat) : Nat", cxx_to_lean(m.group(2), {"NI": "prong", "sizeof...": "n"}))
        m = find1(r"struct\s+LHalfCST<NN,\s*TA,\s*NI,\s*TL_<TS\.\.\.>>\s*final\s*\{\s*using\s+Type\s*=\s*CS_<\s*([^,]+),\s*TA\s*,\s*([^,]+),\s*LHalfTypes<TS\.\.\.>\s*>\s*;", t, "LHalfCST")
        d["lStateId"] = ("(base n : Nat) : Nat", cxx_to_lean(m.group(1), {"NN": "base", "sizeof...": "n"}))
        d["lProngIndex"] = ("(prong n : Nat) : Nat", cxx_to_lean(m.group(2), {"NI": "prong", "sizeof...": "n"}))
        m = find1(r"R_PRONG\s*=\s*([^;]+);", t, "CS_::R_PRONG")
        d["rProng"] = ("(prongIndex n : Nat) : Nat", cxx_to_lean(m.group(1), {"PRONG_INDEX": "prongIndex", "sizeof...": "n"}))
        ops = re.findall(r"\bprong\s*(<=|>=|<|>|==|!=)\s*R_PRONG", t)
        if not ops:
            raise TranslateError("no 'prong < R_PRONG' dispatch found")
        if set(ops) != {"<"}:
            # keep the per-site list so the failing obligation can name it
            raise TranslateError("dispatch comparisons are not uniformly 'prong < R_PRONG': %s" % ops)
        d["goesLeft"] = ("(prong rProng : Nat) : Bool", "decide (prong < rProng)")
        d["dispatchSites"] = ("", str(len(ops)))

    _try('halving', g_halving, failed)

    def g_find():
        # ---- FindImpl: N + 1 on mismatch, N on match, INVALID_LONG when exhausted
        m = find1(r"struct\s+FindImpl<N\s*,\s*T,\s*TFirst,\s*TRest\.\.\.>\s*:\s*FindImpl<\s*([^,]+),\s*T,\s*TRest\.\.\.>", t, "FindImpl step")
        d["findStep"] = ("(i : Nat) : Nat", cxx_to_lean(m.group(1), {"N": "i"}))
        m = find1(r"struct\s+FindImpl<N,\s*T,\s*T,\s*Ts\.\.\.>\s*:\s*Const<\s*(\w+)\s*>", t, "FindImpl hit")
        d["findHit"] = ("(i : Nat) : Nat", cxx_to_lean(m.group(1), {"N": "i"}))
        m = find1(r"template<Long,\s*typename\.\.\.>\s*struct\s+FindImpl\s*:\s*Const<\s*(\w+)\s*>", t, "FindImpl miss")
        d["findMiss"] = ("", cxx_to_lean(m.group(1), {"INVALID_LONG": "INVALID_LONG"}))
        m = find1(r"struct\s+Find<TL_<Ts\.\.\.>,\s*T>\s*final\s*:\s*FindImpl<\s*(\d+)\s*,\s*T,\s*Ts\.\.\.>", t, "Find start")
        d["findStart"] = ("", m.group(1))

    _try('find', g_find, failed)

    def g_buffers():
        # ---- buffers
        m = find1(r"BYTE_COUNT\s*=\s*([^;]+);", t, "StreamBufferT::BYTE_COUNT")
        d["byteCount"] = ("(bitCapacity : Nat) : Nat", cxx_to_lean(m.group(1).replace("8u", "8"), {"contain": "contain", "BIT_CAPACITY": "bitCapacity"})
                          if False else translate_call(m.group(1), "bitCapacity", "BIT_CAPACITY"))
        m = find1(r"UNIT_COUNT\s*=\s*([^;]+);", t, "BitArrayT::UNIT_COUNT")
        d["unitCount"] = ("(capacity : Nat) : Nat", translate_call(m.group(1), "capacity", "CAPACITY"))



    _try('buffers', g_buffers, failed)

    def g_layers():
        # ---- order in which the layers of one state receive a callback (C15):
        #      S_::deepX  — the state's own callback before or after Head::wideX
        #      A_<First, Rest...>::wideX — First::X before or after Rest::wideX
        methods = ["entryGuard", "enter", "reenter", "preUpdate", "update", "postUpdate", "preReact", "react", "postReact",
                   "query", "exitGuard", "exit"]
        own_first, rest_first = [], []
        def body_of(header_rx, what):
            m = find1(header_rx + r"[^{;]*\{", t, what)
            i, depth = m.end(), 1
            while i < len(t) and depth:
                depth += {"{": 1, "}": -1}.get(t[i], 0)
                i += 1
            return t[m.end():i - 1]
        for code, x in enumerate(methods):
            X = x[0].upper() + x[1:]
            b = body_of(r"\bS_<NN_,\s*TA_,\s*TH_>::deep%s\s*\(" % X, "S_::deep%s" % X)
            own = [m_.start() for m_ in re.finditer(r"\bHead::\s*%s\s*\(" % x, b)]
            if not own and re.search(r"&\s*Head::%s\s*\)" % x, b):
                # react family / query: the member is taken by pointer (overload selection) and called through it
                own = [m_.start() for m_ in re.finditer(r"\(\s*this\s*->\*\s*method\s*\)\s*\(", b)]
            wide = [m_.start() for m_ in re.finditer(r"\bHead::\s*wide%s\s*\(" % X, b)]
            if len(own) != 1 or len(wide) != 1:
                raise TranslateError("S_::deep%s: expected exactly one Head::%s(...) and one Head::wide%s(...), found %d / %d" % (X, x, X, len(own), len(wide)))
            if own[0] < wide[0]:
                own_first.append(code)
            b = body_of(r"\bA_<TF_,\s*TR_\.\.\.>::wide%s\s*\(" % X, "A_<First, Rest...>::wide%s" % X)
            first = [m_.start() for m_ in re.finditer(r"\bFirst::\s*%s\s*\(" % x, b)]
            rest = [m_.start() for m_ in re.finditer(r"\bRest\s*::\s*wide%s\s*\(" % X, b)]
            if len(first) != 1 or len(rest) != 1:
                raise TranslateError("A_::wide%s: expected exactly one First::%s(...) and one Rest::wide%s(...), found %d / %d" % (X, x, X, len(first), len(rest)))
            if rest[0] < first[0]:
                rest_first.append(code)
            b = body_of(r"\bA_<TF_>::wide%s\s*\(" % X, "A_<First>::wide%s" % X)
            if len(re.findall(r"\bFirst::\s*%s\s*\(" % x, b)) != 1 or "wide" in b:
                raise TranslateError("A_<First>::wide%s: expected exactly First::%s(...)" % (X, x))
        for X, x in (("PlanSucceeded", "planSucceeded"), ("PlanFailed", "planFailed")):
            b = body_of(r"\bS_<NN_,\s*TA_,\s*TH_>::wrap%s\s*\(" % X, "S_::wrap%s" % X)
            if len(re.findall(r"\bHead::\s*%s\s*\(" % x, b)) != 1 or "wide" in b:
                raise TranslateError("S_::wrap%s: expected exactly Head::%s(...) and no wide call" % (X, x))
        d["ownFirstCodes"] = ("", "[%s]" % ", ".join(map(str, own_first)))
        d["restFirstCodes"] = ("", "[%s]" % ", ".join(map(str, rest_first)))

    _try('layers', g_layers, failed)

    def g_phases():
        # ---- C_::deepX for the update / react phases and query: the root head before or after the active sub-state (C05)
        methods = {"preUpdate": 3, "update": 4, "postUpdate": 5, "preReact": 6, "react": 7, "postReact": 8, "query": 9}
        head_first = []
        for x, code in methods.items():
            X = x[0].upper() + x[1:]
            m = find1(r"\bC_<TA_,\s*TH_,\s*TS_\.\.\.>::deep%s\s*\([^{;]*\{" % X, t, "C_::deep%s" % X)
            i, depth = m.end(), 1
            while i < len(t) and depth:
                depth += {"{": 1, "}": -1}.get(t[i], 0)
                i += 1
            b = t[m.end():i - 1]
            head = [q.start() for q in re.finditer(r"\bHeadState::\s*deep%s\s*\(" % X, b)]
            sub = [q.start() for q in re.finditer(r"\bSubStates::\s*wide%s\s*\(" % X, b)]
            if len(head) != 1 or len(sub) != 1:
                raise TranslateError("C_::deep%s: expected exactly one HeadState::deep%s(...) and one SubStates::wide%s(...), found %d / %d" % (X, X, X, len(head), len(sub)))
            if head[0] < sub[0]:
                head_first.append(code)
        d["headFirstCodes"] = ("", "[%s]" % ", ".join(map(str, sorted(head_first))))

    _try('phases', g_phases, failed)

    def g_resets():
        # ---- what R_::load() and R_::finalExit() reset, under which feature switch, and on which side of the delivery
        #      (C06 / C12 / C19): a list of (statement, guard) in source order.
        #      statements: 0 request.clear()  1 planData.clear()  2 previousTransition.clear()  3 the lifecycle delivery  4 registry.clear()
        #      guards:     0 unconditional    1 FFSM2_PLANS_AVAILABLE()   2 FFSM2_TRANSITION_HISTORY_AVAILABLE()   9 anything else
        def fn_body(header_rx, what):
            m = find1(header_rx + r"[^{;]*\{", t, what)
            i, depth = m.end(), 1
            while i < len(t) and depth:
                depth += {"{": 1, "}": -1}.get(t[i], 0)
                i += 1
            return t[m.end():i - 1]

        GUARD = {"FFSM2_PLANS_AVAILABLE()": 1, "FFSM2_TRANSITION_HISTORY_AVAILABLE()": 2}
        MACRO = {"FFSM2_IF_PLANS": 1, "FFSM2_IF_TRANSITION_HISTORY": 2}

        def steps_of(body, delivery_rx, what):
            stmts = [(r"_core\s*\.\s*request\s*\.\s*clear\s*\(\s*\)", 0), (r"_core\s*\.\s*planData\s*\.\s*clear\s*\(\s*\)", 1),
                     (r"_core\s*\.\s*previousTransition\s*\.\s*clear\s*\(\s*\)", 2), (delivery_rx, 3),
                     (r"_core\s*\.\s*registry\s*\.\s*clear\s*\(\s*\)", 4)]
            out, stack, depth = [], [], 0
            for line in body.split("\n"):
                st = line.strip()
                if st.startswith("#"):
                    m = re.match(r"#\s*(if|ifdef|ifndef|elif|else|endif)\b\s*(.*)", st)
                    if not m:
                        continue
                    kw, cond = m.group(1), m.group(2).strip()
                    if kw in ("if", "ifdef", "ifndef"):
                        stack.append(GUARD.get(cond, 9) if kw == "if" else 9)
                    elif kw in ("elif", "else"):
                        if not stack:
                            raise TranslateError("%s: #%s without #if" % (what, kw))
                        stack[-1] = 9
                    else:
                        if not stack:
                            raise TranslateError("%s: #endif without #if" % what)
                        stack.pop()
                    continue
                found = sorted((m.start(), m.end(), code) for rx, code in stmts for m in re.finditer(rx, line))
                for (a, b, code) in found:
                    guards = [g for g in stack]
                    pre, post = line[:a].strip(), line[b:].strip()
                    mm = re.fullmatch(r"(\w+)\s*\(", pre)
                    if mm and mm.group(1) in MACRO:
                        guards.append(MACRO[mm.group(1)])
                        post = post[1:].strip() if post.startswith(")") else "?"
                    elif pre:
                        guards.append(9)            # part of a larger statement / condition
                    if code != 3 and post != ";":
                        guards.append(9)
                    if depth > 0:
                        guards.append(9)            # inside a nested block
                    g = 0 if not guards else (guards[0] if all(x == guards[0] for x in guards) else 9)
                    out.append((code, g))
                depth += line.count("{") - line.count("}")
            if stack:
                raise TranslateError("%s: unbalanced #if" % what)
            seq = out
            if sorted(c for c, _ in seq) != sorted(set(c for c, _ in seq)):
                raise TranslateError("%s: a reset statement occurs more than once: %s" % (what, seq))
            if 3 not in [c for c, _ in seq]:
                raise TranslateError("%s: the lifecycle delivery was not found" % what)
            return seq

        # sort matches on the same line by column
        def ordered(body, rx, what):
            seq = steps_of(body, rx, what)
            return "[%s]" % ", ".join("(%d, %d)" % p for p in seq)

        d["loadSteps"] = ("", ordered(fn_body(r"\bR_<TG_,\s*TA_>::load\s*\(\s*ReadStream\s*&", "R_::load(ReadStream&)"),
                                       r"_apex\s*\.\s*deepChangeToRequested\s*\(", "R_::load"))
        d["exitSteps"] = ("", ordered(fn_body(r"\bR_<TG_,\s*TA_>::finalExit\s*\(\s*\)", "R_::finalExit()"),
                                       r"_apex\s*\.\s*deepExit\s*\(", "R_::finalExit"))

    _try('resets', g_resets, failed)

    return d, failed

def translate_call(expr, leanvar, cxxvar):
    m = re.fullmatch(r"\s*contain\s*\(\s*%s\s*,\s*(\d+)u?\s*\)\s*" % cxxvar, expr)
    if not m:
        raise TranslateError("expected contain(%s, k): %r" % (cxxvar, expr))
    return "contain %s %s" % (leanvar, m.group(1))


ORDER = ["bitsShort", "bitsLong", "bitsStateID", "bitsProng", "INVALID_SHORT", "INVALID_LONG", "INVALID_STATE_ID", "INVALID_PRONG",
         "bitWidth", "bitWidthArms", "contain", "typeBits", "typeBitsMaxWidth", "widthBits", "activeBits", "serialBits",
         "activityBitWrites", "activityBitReads",
         "taskCapacity", "defaultSubstitutionLimit", "defaultTaskCapacity", "substitutionLoopCount", "substLoopStart", "substLoopInclusive",
         "halfL", "halfR", "lowerKeeps", "upperSkips", "lStateId", "lProngIndex", "rStateId", "rProngIndex", "rProng", "goesLeft", "dispatchSites",
         "findStep", "findHit", "findMiss", "findStart", "byteCount", "unitCount", "ownFirstCodes", "restFirstCodes", "headFirstCodes",
         "loadSteps", "exitSteps"]

TYPES = {"activityBitWrites": "List (Nat × Nat)", "activityBitReads": "List Nat", "substLoopInclusive": "Bool",
         "ownFirstCodes": "List Nat", "restFirstCodes": "List Nat", "headFirstCodes": "List Nat",
         "loadSteps": "List (Nat × Nat)", "exitSteps": "List (Nat × Nat)"}


def render(d, source_note):
    out = ["/- GENERATED by tools/translate.py from %s — do not edit; regenerated on every check run. -/" % source_note,
           "set_option linter.unusedVariables false", "namespace FFSM2", "namespace Gen", ""]
    for k in ORDER:
        sig, body = d[k]
        if sig == "":
            out.append("def %s : %s := %s" % (k, TYPES.get(k, "Nat"), body))
        else:
            out.append("def %s %s := %s" % (k, sig, body))
    out += ["", "end Gen", "end FFSM2", ""]
    return "\n".join(out)


def amalgamate_dev(root):
    """concatenate the development headers in include order (same traversal as tools/join.py)"""
    included, chunks = [], []

    def merge(name, folder):
        cur = os.path.join(folder, name)
        for line in read(cur).split("\n"):
            h = line.find('#include "')
            if h != -1:
                nxt = line[h + 10:].rstrip()[:-1]
                if nxt not in included:
                    toks = nxt.split("/")
                    included.append(toks[-1])
                    if len(toks) == 1:
                        merge(nxt, folder)
                    else:
                        merge(toks[-1], os.path.join(folder, *toks[:-1]))
            else:
                chunks.append(line)
    merge("machine_dev.hpp", os.path.join(root, "development", "ffsm2"))
    return "\n".join(chunks)


GROUPS = {
    "ids": ["bitsShort", "bitsLong", "bitsStateID", "bitsProng", "INVALID_SHORT", "INVALID_LONG", "INVALID_STATE_ID", "INVALID_PRONG"],
    "bitwidth": ["bitWidth", "bitWidthArms"],
    "contain": ["contain"],
    "typebits": ["typeBits", "typeBitsMaxWidth"],
    "serial": ["widthBits", "activeBits", "serialBits", "activityBitWrites", "activityBitReads"],
    "config": ["taskCapacity", "defaultSubstitutionLimit", "defaultTaskCapacity", "substitutionLoopCount", "substLoopStart", "substLoopInclusive"],
    "halving": ["halfL", "halfR", "lowerKeeps", "upperSkips", "lStateId", "lProngIndex", "rStateId", "rProngIndex", "rProng", "goesLeft", "dispatchSites"],
    "find": ["findStep", "findHit", "findMiss", "findStart"],
    "buffers": ["byteCount", "unitCount"],
    "layers": ["ownFirstCodes", "restFirstCodes"],
    "phases": ["headFirstCodes"],
    "resets": ["loadSteps", "exitSteps"],
}
FALLBACK = os.path.join(HERE, "gen_fallback.json")


def main():
    """Exit 0 always when a Consts.lean could be written; the per-group status (which constructs could
    not be translated, or differ between the two header variants) goes to Gen/status.json.  A failed
    group keeps the last known-good definitions (tools/gen_fallback.json, recorded on the pinned
    tree) so that the rest of the library still builds; check.py treats every property that depends
    on a failed group as having a broken obligation."""
    os.makedirs(OUT, exist_ok=True)
    failed = {}
    try:
        inc, f1 = extract(read(os.path.join(REPO, "include", "ffsm2", "machine.hpp")), "include")
        dev, f2 = extract(amalgamate_dev(REPO), "development")
    except Exception as e:  # unreadable sources etc.
        inc, dev, f1, f2 = {}, {}, {g: "sources unreadable: %s" % e for g in GROUPS}, {}
    for g, msg in f1.items():
        failed[g] = "include/ffsm2/machine.hpp: " + msg
    for g, msg in f2.items():
        failed.setdefault(g, "development/: " + msg)
    for g, keys in GROUPS.items():
        if g not in failed and any(inc.get(k) != dev.get(k) for k in keys):
            failed[g] = "include/ffsm2/machine.hpp and development/ disagree on %s" % [k for k in keys if inc.get(k) != dev.get(k)]
    if "--record-fallback" in sys.argv:
        if failed:
            print("cannot record fallback: %s" % failed)
            return 2
        with open(FALLBACK, "w") as f:
            json.dump({k: list(v) for k, v in inc.items()}, f, indent=1, sort_keys=True)
    fb = {k: tuple(v) for k, v in json.load(open(FALLBACK)).items()} if os.path.exists(FALLBACK) else {}
    forced = []
    for a in sys.argv[1:]:
        if a.startswith("--force-fallback="):
            forced = [g for g in a.split("=", 1)[1].split(",") if g in GROUPS]
    d = dict(inc)
    for g in set(failed) | set(forced):
        for k in GROUPS[g]:
            d[k] = fb[k]
    # groups whose regenerated definitions differ from the ones recorded when the model was last validated
    changed = sorted(g for g, keys in GROUPS.items() if g not in failed and any(tuple(inc.get(k, ())) != tuple(fb.get(k, ())) for k in keys))
    note = "include/ffsm2/machine.hpp (== development/ffsm2/**)"
    if failed or forced:
        note += "; groups keeping the last validated definitions this run: %s" % sorted(set(failed) | set(forced))
    text = render(d, note)
    path = os.path.join(OUT, "Consts.lean")
    old = open(path).read() if os.path.exists(path) else None
    if old != text:
        with open(path, "w") as f:
            f.write(text)
        print("translate: wrote %s" % path)
    else:
        print("translate: %s unchanged" % path)
    with open(os.path.join(OUT, "status.json"), "w") as f:
        json.dump({"failed": failed, "changed": changed, "forced": sorted(forced)}, f, indent=1, sort_keys=True)
    for g, msg in sorted(failed.items()):
        print("TRANSLATE-FAILED group=%s: %s" % (g, msg))
    return 0


if __name__ == "__main__":
    sys.exit(main())
