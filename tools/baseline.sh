#!/bin/bash
# Builds the repository's own doctest suite from /repo's current working tree with the
# verification guard OFF (no -DFFSM2_VERIF anywhere) in a scratch dir outside /repo and /verif,
# runs it, prints doctest's summary, removes the scratch dir. Exit status = suite status.
set -u
REPO=${REPO:-/repo}
D=$(mktemp -d /var/tmp/ffsm2_baseline.XXXXXX)
trap 'rm -rf "$D"' EXIT
cmake -G Ninja -S "$REPO" -B "$D" -DCMAKE_BUILD_TYPE=RelWithDebInfo >"$D/cmake.log" 2>&1 || { cat "$D/cmake.log"; exit 2; }
# the POST_BUILD step runs the suite; run it again explicitly for a clean exit code
cmake --build "$D" -j16 >"$D/build.log" 2>&1 || { tail -50 "$D/build.log"; exit 2; }
"$D/ffsm2_test" -r console 2>&1 | tail -8
exit ${PIPESTATUS[0]}
