#!/bin/bash
# NOTE: patches /repo in place and reverts it afterwards — never run while a `vp run` background job is active.
# re-run every stored seed against its own property's quick check
cd /verif
for d in seeded/C*; do
  id=$(basename $d); prop=${id:0:3}
  if ! git -C /repo apply /verif/$d/patch.diff 2>/dev/null; then echo "$id: PATCH-DOES-NOT-APPLY"; continue; fi
  out=$(python3 check.py $prop --tier quick 2>&1 | grep -E "VIOLATION|exit=")
  nv=$(echo "$out" | grep -c "VIOLATION"); nn=$(echo "$out" | grep -c "no-failing-input-found")
  ex=$(echo "$out" | grep -o "exit=[0-9]")
  echo "$id: violations=$nv without-input=$nn $ex"
  git -C /repo checkout -- .
done
git -C /repo status --short | grep -v _build
echo ALLDONE
