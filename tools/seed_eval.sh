#!/bin/bash
# seed_eval.sh <worktree> <seed-id> <property> [more properties...]
# 1. confirms the seeded change: suite passes with it, demo fails with it and passes without it
# 2. stores it under /verif/seeded/<seed-id>/ (patch.diff, seed_demo.cpp, seed_notes.md)
# 3. applies it to /repo, runs the quick check of each property, reverts /repo
set -u
WT=$1; ID=$2; shift 2
OUT=/verif/seeded/$ID
mkdir -p $OUT
git -C $WT diff -- development include tools test > $OUT/patch.diff
cp $WT/seed_demo.cpp $OUT/ 2>/dev/null; cp $WT/seed_notes.md $OUT/ 2>/dev/null
echo "== patch: $(wc -l < $OUT/patch.diff) lines"
echo "== suite with change:"; REPO=$WT bash /verif/tools/baseline.sh | tail -3
FLAGS=$(grep -o 'g++ [^`]*seed_demo.cpp[^`]*' $WT/seed_notes.md | head -1)
( cd $WT && g++ -std=c++11 -I$WT/include seed_demo.cpp -o /var/tmp/seed_demo_$ID 2>&1 | tail -3; /var/tmp/seed_demo_$ID > /var/tmp/seed_demo_$ID.with 2>&1; echo "== demo WITH change exit=$?" )
( cd $WT && git stash -q && g++ -std=c++11 -I$WT/include seed_demo.cpp -o /var/tmp/seed_demo_$ID 2>&1 | tail -3; /var/tmp/seed_demo_$ID > /var/tmp/seed_demo_$ID.without 2>&1; echo "== demo WITHOUT change exit=$?"; git stash pop -q )
rm -f /var/tmp/seed_demo_$ID*
cd /verif
git -C /repo apply $OUT/patch.diff || { echo "patch does not apply to /repo"; exit 2; }
for P in "$@"; do
  echo "== check $P on the seeded tree:"; python3 check.py $P --tier quick 2>&1 | grep -E "VIOLATION|KNOWN|exit=" 
done
git -C /repo checkout -- .
git -C /repo status --short | grep -v _build
