#!/usr/bin/env python3
"""Run the implementation-trace oracles over many generated cases on the CURRENT tree and print every
finding (used to hunt false alarms of the oracles themselves; not a registered check)."""
import os, random, sys
sys.path.insert(0, os.path.dirname(os.path.dirname(os.path.abspath(__file__))))
os.environ["VERIF_ORACLE_DEBUG"] = "1"
from concurrent.futures import ThreadPoolExecutor
from vlib import machine as MM, props as P, oracles as O, common as C

def main():
    seeds = [int(x) for x in (sys.argv[1] if len(sys.argv) > 1 else "1,2,3").split(",")]
    props = (sys.argv[2] if len(sys.argv) > 2 else "C07,C08,C09,C10,C16,C17").split(",")
    ncase = int(sys.argv[3]) if len(sys.argv) > 3 else 60
    thorough = len(sys.argv) > 4
    total = found = 0
    for seed in seeds:
        rng = random.Random(seed)
        cfgs = MM.thorough_configs(rng) if thorough else MM.quick_configs(rng)
        with ThreadPoolExecutor(max_workers=16) as ex:
            built = list(ex.map(MM.build, cfgs))
        for cfg, (exe, _) in zip(cfgs, built):
            if exe is None:
                print("no build", cfg.cfg_line()); continue
            for prop in props:
                cases = [MM.gen_case(rng, cfg, "r%d" % k, rng.randint(8, 24), P.BIAS.get(prop)) for k in range(ncase)]
                if cfg.plans:
                    cases += [MM.plan_veto_case(rng, cfg, "pv%d" % k) for k in range(ncase // 3)]
                    cases += [MM.reactivation_case(rng, cfg, "ra%d" % k) for k in range(ncase // 4)]
                    cases += [MM.statusfirst_case(rng, cfg, "sf%d" % k) for k in range(ncase // 3)]
                cases += [MM.pingpong_case(rng, cfg, "pp%d" % k) for k in range(ncase // 3)]
                rc, out = C.run_lines([exe], [l for c in cases for l in c], timeout=600)
                outs = MM.split_cases(out)
                for case, a in zip(cases, outs):
                    total += 1
                    v = O.run(prop, case, a, (lambda c, _e=exe: MM.run_impl(_e, c)) if total % 4 == 0 else None)
                    if v:
                        found += 1
                        if found <= 12:
                            print("FINDING", prop, "seed", seed, cfg.cfg_line()[:100]); print("   ", v)
                            open("/var/tmp/soak_%s_%d.txt" % (prop, found), "w").write("\n".join(case) + "\n-----\n" + "\n".join(a))
    print("cases", total, "findings", found)

main()
