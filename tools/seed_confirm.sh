#!/bin/bash
# NOTE: patches /repo in place and reverts it afterwards — never run while a `vp run` background job is active.
# confirm and evaluate the round-4 seeds: suite passes with change, demo fails with / passes without, own check detects
cd /verif
for d in ${@:-seeded/C*d-*}; do
  id=$(basename $d); prop=${id:0:3}
  echo "=== $id"
  g++ -std=c++11 -I/repo/include $d/seed_demo.cpp -o /var/tmp/r4demo 2>/dev/null; /var/tmp/r4demo >/dev/null 2>&1; echo "demo WITHOUT change exit=$?"
  git -C /repo apply /verif/$d/patch.diff || { echo "PATCH-DOES-NOT-APPLY"; continue; }
  g++ -std=c++11 -I/repo/include $d/seed_demo.cpp -o /var/tmp/r4demo 2>/dev/null; /var/tmp/r4demo >/dev/null 2>&1; echo "demo WITH change exit=$?"
  echo "suite: $(REPO=/repo bash /verif/tools/baseline.sh 2>&1 | grep -E 'test cases|Status' | tr '\n' ' ')"
  python3 check.py $prop --tier quick 2>&1 | grep -E "VIOLATION|exit=" | cut -c1-200
  git -C /repo checkout -- .
done
rm -f /var/tmp/r4demo
git -C /repo status --short | grep -v _build
echo ALLDONE
