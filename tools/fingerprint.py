#!/usr/bin/env python3
"""Source fingerprints of the hand-modelled C++.

The machine model (lean/FFSM2/Machine.lean and the container models) is written by hand; the
correspondence harness ties it to the code on the inputs it generates.  This tool adds a static tie: every
function and class body of include/ffsm2/machine.hpp that the model mirrors is hashed (comments and
white space ignored) and compared with the hashes recorded when the model was last validated against it
(tools/fingerprints.json).  A changed / vanished / new unit is a *broken obligation* of the properties whose
model part it is (RULES below): the check then widens its search for a failing input and reports the
property as no longer shown if it finds none.  It never decides a property by itself.

  fingerprint.py            compare, print JSON {changed, missing, new, props}
  fingerprint.py --record   re-record (only after the model has been re-validated against the new source)
"""
import hashlib, json, os, re, sys

VERIF = os.path.dirname(os.path.dirname(os.path.abspath(__file__)))
REPO = os.environ.get("REPO", "/repo")
HEADER = os.path.join(REPO, "include", "ffsm2", "machine.hpp")
STORE = os.path.join(VERIF, "tools", "fingerprints.json")

# which properties' model parts mirror which units (first matching rules all apply)
RULES = [
    (r"^fn R_<.*::(processRequest|processTransitions|applyRequest|cancelledByGuards)$", ["C01", "C02", "C03", "C04", "C07", "C11"]),
    (r"^fn R_<.*::(initialEnter|cancelledByEntryGuards|finalExit)$", ["C01", "C03", "C04"]),
    (r"^fn R_<.*::cancelledBy(Entry)?Guards$", ["C06"]),
    (r"^fn R_<.*::(update|react|query)$", ["C01", "C05"]),
    (r"^fn R_<.*::(update|react)$", ["C02", "C08", "C09"]),          # plan step and request processing are driven from here
    (r"^fn R_<.*::(succeed|fail)$", ["C08", "C09", "C16"]),
    (r"^fn R_<.*::(changeTo|immediateChangeTo)$", ["C02", "C16"]),
    (r"^fn RP_<", ["C02", "C07", "C16"]),
    (r"^fn R_<.*::replayTransition$|^fn RV_<.*::replayEnter$", ["C01", "C11"]),
    (r"^fn R_<.*::(save|load)$|^fn RV_<.*::(save|load|loadEnter)$", ["C12"]),
    (r"^fn RV_<.*::(RV_|~RV_)$|^fn R_<.*::(R_|~R_)$|^fn CoreT<|^fn InstanceT<", ["C01", "C17"]),
    (r"^fn C_<.*::deep(PreUpdate|Update|PostUpdate|PreReact|React|PostReact|Query)$", ["C05", "C09"]),
    (r"^fn C_<.*::deepUpdatePlans$|^fn FullControlT<.*::updatePlan$", ["C08", "C09"]),
    (r"^fn C_<.*::deep(Forward)?(Entry|Exit)Guard$", ["C02", "C03", "C04"]),
    (r"^fn C_<.*::deep(Enter|Exit|Reenter|ChangeToRequested)$", ["C01", "C11"]),
    (r"^fn C_<.*::deep(SaveActive|LoadRequested)$", ["C12"]),
    (r"^fn CS_<", ["C01", "C05", "C14"]),
    (r"^fn S_<.*::(deep|wrap)", ["C15", "C16"]),
    (r"^fn S_<.*::deepExit$", ["C08", "C09"]),
    (r"^fn FullControlT<.*::changeWith$|^fn GuardControlT<", ["C02", "C03", "C06", "C07", "C16"]),
    (r"^fn (Const)?ControlT<|^fn PlanControlT<", ["C06"]),
    (r"^fn (PlanT|CPlanT|PayloadPlanT)<", ["C10"]),
    (r"^fn PlanT<.*::clear$", ["C08", "C09"]),
    (r"^fn TaskListT<", ["C10", "C18"]),
    (r"^fn PlanDataT<", ["C08", "C09"]),
    (r"^fn (BitWriteStreamT|BitReadStreamT|StreamBufferT)<", ["C12", "C13"]),
    (r"^fn BitArrayT<", ["C20", "C08"]),
    (r"^fn (StaticArrayT|DynamicArrayT|IteratorT)<", ["C20"]),
    # class bodies (inline members)
    (r"^class (ConstControlT|ControlT|PlanControlT)\b", ["C06"]),
    (r"^class (FullControlBaseT|FullControlT|GuardControlT)\b", ["C02", "C03", "C06", "C07", "C16"]),
    (r"^class (Registry)\b", ["C01", "C06"]),
    (r"^class (TransitionBase|TransitionT)\b", ["C02", "C07", "C11", "C18"]),
    (r"^class (TaskBase|TaskT|TaskLink)\b", ["C07", "C10", "C18"]),
    (r"^class (TaskListT|CPlanT|PlanT|PayloadPlanT)\b", ["C10"]),
    (r"^class (PlanDataT|TaskStatus)\b", ["C08", "C09", "C10", "C17", "C18"]),
    (r"^class (RF_|ArgsT)\b", ["C10", "C12", "C14", "C19"]),
    (r"^class (CoreT)\b", ["C17"]),
    (r"^class (BitArrayT)\b", ["C20"]),
    (r"^class (StaticArrayT|DynamicArrayT|IteratorT)\b", ["C20"]),
    (r"^class (StreamBufferT|BitWriteStreamT|BitReadStreamT)\b", ["C12", "C13"]),
    (r"^class (R_|RV_|RP_|InstanceT)\b", ["C01", "C16", "C17"]),
    (r"^class (S_)\b", ["C15", "C16"]),
    (r"^class (C_|CS_)\b", ["C14"]),
    (r"^class (LoggerInterfaceT)\b|^macro FFSM2_LOG", ["C16"]),
    (r"^class (A_|B_)\b|^fn (A_|B_)<", ["C15"]),
]


def class_names():
    names = set()
    for rx, _ in RULES:
        if rx.startswith("^class ("):
            names.update(rx[len("^class ("):].split(")", 1)[0].split("|"))
    return sorted(names)


def strip_comments(s):
    s = re.sub(r"/\*.*?\*/", " ", s, flags=re.S)
    return re.sub(r"//[^\n]*", "", s)


def norm(s):
    return re.sub(r"\s+", " ", s).strip()


def units(text):
    text = strip_comments(text)
    lines = text.split("\n")
    out = {}

    def add(key, body):
        k, n = key, 1
        while k in out:
            n += 1
            k = "%s#%d" % (key, n)
        out[k] = hashlib.sha1(norm(body).encode()).hexdigest()[:16]

    # out-of-line member definitions: `Class<...>::name(` at column 0, body ends at a `}` at column 0
    rx = re.compile(r"^([A-Za-z_]\w*<.*>(?:::\w+)*)::(~?\w+|operator\s*[^\s(]+(?:\s*\(\s*\))?)\s*\(")
    i = 0
    while i < len(lines):
        m = rx.match(lines[i])
        if m:
            j = i
            while j < len(lines) and lines[j].rstrip() != "}":
                j += 1
            # the declaration lines above (template header, return type) belong to the unit
            k = i
            while k > 0 and lines[k - 1].strip() and not lines[k - 1].startswith("}") and not lines[k - 1].startswith("#"):
                k -= 1
            cls = re.sub(r"\s+", " ", m.group(1))
            add("fn %s::%s" % (cls, re.sub(r"\s+", "", m.group(2))), "\n".join(lines[k:j + 1]))
            i = j + 1
            continue
        i += 1
    # class / struct bodies
    wanted = set(class_names())
    for m in re.finditer(r"^[ \t]*(?:class|struct)\s+(?:FFSM2_EMPTY_BASES\s+)?(\w+)\b", text, re.M):
        name = m.group(1)
        if name not in wanted:
            continue
        k = m.end()
        semi, brace = text.find(";", k), text.find("{", k)
        if brace < 0 or (0 <= semi < brace):
            continue        # forward declaration
        depth, p = 0, brace
        while p < len(text):
            if text[p] == "{":
                depth += 1
            elif text[p] == "}":
                depth -= 1
                if depth == 0:
                    break
            p += 1
        add("class %s" % name, text[m.start():p + 1])
    # logging macros
    for m in re.finditer(r"^[ \t]*#\s*define\s+(FFSM2_LOG_\w+)[^\n]*(?:\\\n[^\n]*)*", text, re.M):
        add("macro %s" % m.group(1), m.group(0))
    return out


def props_of(key):
    base = key.split("#")[0]
    ps = set()
    for rx, props in RULES:
        if re.search(rx, base):
            ps.update(props)
    return sorted(ps)


def main():
    cur = units(open(HEADER, encoding="utf-8", errors="replace").read())
    cur = {k: v for k, v in cur.items() if props_of(k)}
    if "--record" in sys.argv:
        json.dump({"header": "include/ffsm2/machine.hpp", "units": cur}, open(STORE, "w"), indent=0, sort_keys=True)
        print("recorded %d units" % len(cur))
        return 0
    old = json.load(open(STORE))["units"]
    changed = sorted(k for k in cur if k in old and old[k] != cur[k])
    missing = sorted(k for k in old if k not in cur)
    new = sorted(k for k in cur if k not in old)
    props = {}
    for k in changed + missing + new:
        for p in props_of(k):
            props.setdefault(p, []).append(k)
    print(json.dumps({"units": len(cur), "changed": changed, "missing": missing, "new": new, "props": props}))
    return 0


if __name__ == "__main__":
    sys.exit(main())
