#!/bin/bash
# neutral_eval.sh <worktree> <id> [properties...]
# A behaviour-preserving refactoring: store it under /verif/seeded/neutral-<id>/, confirm the suite passes with it,
# apply it to /repo, run the quick checks (default: all 20) — every one must exit 0 — and revert /repo.
set -u
WT=$1; ID=$2; shift 2
PROPS=${@:-C01 C02 C03 C04 C05 C06 C07 C08 C09 C10 C11 C12 C13 C14 C15 C16 C17 C18 C19 C20}
OUT=/verif/seeded/neutral-$ID
mkdir -p $OUT
git -C $WT diff -- development include tools test > $OUT/patch.diff
cp $WT/seed_notes.md $OUT/ 2>/dev/null
echo "== patch: $(wc -l < $OUT/patch.diff) lines"
echo "== suite with change:"; REPO=$WT bash /verif/tools/baseline.sh | tail -2
cd /verif
git -C /repo apply $OUT/patch.diff || { echo "patch does not apply to /repo"; exit 2; }
ALARMS=0
for P in $PROPS; do
  R=$(python3 check.py $P --tier quick 2>&1 | grep -E "VIOLATION|KNOWN|exit=")
  echo "$R" | tail -1
  echo "$R" | grep -q "exit=0" || { ALARMS=$((ALARMS+1)); echo "$R" | grep VIOLATION | head -2; }
done
git -C /repo checkout -- .
git -C /repo status --short | grep -v _build
echo "== alarms on a behaviour-preserving change: $ALARMS"
