#!/usr/bin/env python3
"""Operator-based mutation sweep (not a registered check; an independent estimate of what the checks catch).

For each of N randomly chosen single-token mutations of the development sources (relational / logical / arithmetic /
constant operators, statement deletion): regenerate include/ffsm2/machine.hpp with tools/join.py, build and run the
repository's own suite; a mutant the suite does not notice ("survivor") is then given to the quick checks of the
properties the mutated unit belongs to (tools/fingerprint.py's unit -> property map; all machine properties when the
unit is unmapped).  /repo is restored after every mutant.  NEVER run while a `vp run` background job is active.

usage: mutation_sweep.py <seed> <count> [out.json]
"""
import json, os, random, re, subprocess, sys, time

REPO, VERIF = "/repo", "/verif"
FILES = ["development/ffsm2/detail/root_0.inl", "development/ffsm2/detail/root_1.inl", "development/ffsm2/detail/root_2.inl",
         "development/ffsm2/detail/root/control_3.inl", "development/ffsm2/detail/root/control_4.inl", "development/ffsm2/detail/root/control_2.inl",
         "development/ffsm2/detail/root/control_0.inl", "development/ffsm2/detail/root/control_1.inl",
         "development/ffsm2/detail/root/plan_0.inl", "development/ffsm2/detail/root/plan_1.inl", "development/ffsm2/detail/root/plan_2.inl",
         "development/ffsm2/detail/root/plan_data.inl", "development/ffsm2/detail/root/registry.hpp", "development/ffsm2/detail/root/core.inl",
         "development/ffsm2/detail/structure/composite.inl", "development/ffsm2/detail/structure/composite_sub_1.inl",
         "development/ffsm2/detail/structure/composite_sub_2.inl", "development/ffsm2/detail/structure/state_1.inl",
         "development/ffsm2/detail/structure/state_2.inl", "development/ffsm2/detail/structure/ancestors_1.inl",
         "development/ffsm2/detail/structure/ancestors_2.inl", "development/ffsm2/detail/features/task_list.inl",
         "development/ffsm2/detail/features/transition.hpp", "development/ffsm2/detail/features/task.hpp",
         "development/ffsm2/detail/containers/bit_array.inl", "development/ffsm2/detail/containers/array.inl",
         "development/ffsm2/detail/shared/bit_stream.inl", "development/ffsm2/detail/shared/utility.hpp"]
OPS = [(r"(?<![<>=!-])<(?![<=])", "<="), (r"<=", "<"), (r"(?<![<>=!-])>(?![>=])", ">="), (r">=", ">"), (r"==", "!="), (r"!=", "=="),
       (r"&&", "||"), (r"\|\|", "&&"), (r"\+ 1\b", "- 1"), (r"- 1\b", "+ 1"), (r"\btrue\b", "false"), (r"\bfalse\b", "true"),
       (r"\+\+", "--"), (r"\|=", "&="), (r"&=", "|="), (r">>", "<<"), (r"<<", ">>")]
ALL_MACHINE = ["C01", "C02", "C03", "C05", "C06", "C08", "C09", "C10", "C11", "C16", "C17"]


def sh(cmd, **kw):
    return subprocess.run(cmd, shell=True, capture_output=True, text=True, **kw)


def candidates(path):
    out = []
    in_verify = False
    for ln, line in enumerate(open(os.path.join(REPO, path), encoding="utf-8-sig").read().split("\n")):
        code = line.split("//")[0]
        st = code.strip()
        # assert-only helpers (compiled only with FFSM2_ENABLE_ASSERT on MSVC) and the unreachable arms of bitWidth()
        if re.search(r"::verifyPlans?\(\)", st):
            in_verify = True
        elif in_verify and line.startswith("}"):
            in_verify = False
            continue
        if in_verify or re.search(r"v\s*>>\s*\d+\s*==\s*0\s*\?", st) or ">>::" in st:
            continue
        if not st or st.startswith("#") or "FFSM2_ASSERT" in st or "static_assert" in st or st.startswith("template") or "FFSM2_CONSTEXPR" in st \
                or st.startswith("typename") or st.startswith("using") or "operator" in st or "FFSM2_LOG" in st or "->" in st and "<" in st and ">" in st and "template" in st:
            continue
        if re.search(r"<\s*\w+(\s*,\s*\w+)*\s*>", st) and not re.search(r"\b(if|for|while|return)\b", st):
            continue        # template argument lists
        for k, (rx, rep) in enumerate(OPS):
            for m in re.finditer(rx, code):
                out.append((path, ln, m.start(), m.end(), rep, "op%d" % k))
        if re.fullmatch(r"[\w\.\[\]\(\)_:<>, ]+(\+\+|--)?\s*(=|\|=|&=|\+=|-=)?[^=;]*;", st) and not st.startswith("return") and "{" not in st and "}" not in st \
                and not re.match(r"(const|auto|Long|Short|StateID|bool|uint\w+|Transition|Task\w*|PlanControl|GuardControl|FullControl|Plan|CPlan|Item|TaskLink)\b", st):
            out.append((path, ln, 0, len(line), "", "delete"))
    return out


def main():
    seed, count = int(sys.argv[1]), int(sys.argv[2])
    outp = sys.argv[3] if len(sys.argv) > 3 else os.path.join(VERIF, "seeded", "mutation_sweep_%d.json" % seed)
    rng = random.Random(seed)
    cands = [c for f in FILES for c in candidates(f)]
    rng.shuffle(cands)
    results, tried = [], 0
    assert sh("git -C %s status --short | grep -v _build" % REPO).stdout.strip() == "", "/repo is not clean"
    for (path, ln, a, b, rep, kind) in cands:
        if len([r for r in results if r["suite"] == "pass"]) >= count or tried >= count * 6:
            break
        tried += 1
        full = os.path.join(REPO, path)
        lines = open(full, encoding="utf-8-sig").read().split("\n")
        before = lines[ln]
        lines[ln] = before[:a] + rep + before[b:] if kind != "delete" else re.match(r"\s*", before).group(0) + ";"
        open(full, "w", encoding="utf-8").write("\n".join(lines))
        rec = {"file": path, "line": ln + 1, "kind": kind, "before": before.strip()[:160], "after": lines[ln].strip()[:160]}
        try:
            r = sh("cd %s/tools && python3 join.py" % REPO)
            try:
                s = sh("REPO=%s timeout 240 bash %s/tools/baseline.sh 2>&1 | tail -3" % (REPO, VERIF), timeout=300)
                rec["suite"] = "pass" if "Status: SUCCESS" in s.stdout else ("fail" if "FAILURE" in s.stdout or "failed" in s.stdout else "no-build")
            except subprocess.TimeoutExpired:
                sh("pkill -f ffsm2_test")
                rec["suite"] = "hang"
            if rec["suite"] == "pass":
                fp = sh("cd %s && python3 tools/fingerprint.py | tail -1" % VERIF).stdout
                try:
                    props = sorted(json.loads(fp).get("props", {}).keys())
                except Exception:
                    props = []
                props = props or ALL_MACHINE
                rec["props"] = props
                rec["checks"] = {}
                t0 = time.time()
                for p in props:
                    c = sh("cd %s && python3 check.py %s --tier quick 2>&1 | grep -E 'VIOLATION|exit='" % (VERIF, p), timeout=3600).stdout
                    rec["checks"][p] = ("concrete" if ("VIOLATION" in c and any("VIOLATION" in l and "no-failing-input-found" not in l for l in c.split("\n")))
                                        else "no-input" if "VIOLATION" in c else "silent")
                rec["caught"] = any(v != "silent" for v in rec["checks"].values())
                rec["secs"] = round(time.time() - t0)
            print(json.dumps(rec), flush=True)
        finally:
            sh("git -C %s checkout -- ." % REPO)
        results.append(rec)
        json.dump(results, open(outp, "w"), indent=1)
    surv = [r for r in results if r["suite"] == "pass"]
    print("mutants tried %d, killed by the suite %d, did not build %d, survivors %d, of those reported by a check %d" % (
        len(results), sum(1 for r in results if r["suite"] == "fail"), sum(1 for r in results if r["suite"] == "no-build"),
        len(surv), sum(1 for r in surv if r.get("caught"))))


main()
