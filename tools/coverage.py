#!/usr/bin/env python3
"""Line coverage of include/ffsm2/machine.hpp under the machine correspondence harness (not a registered check; used to
look for blind spots of the generators): builds the generated harness of the quick configurations and six thorough ones
with --coverage, feeds them the streams the checks use, merges gcov's per-line counts and lists the instantiated lines of
the library that were never executed.  Scratch under /var/tmp/cov (removed afterwards)."""
import os, random, subprocess, sys, re, collections
sys.path.insert(0, '/verif')
from vlib import machine as MM, gen_machine as G, props as P, common as C
rng = random.Random(5)
cfgs = MM.quick_configs(rng) + MM.thorough_configs(rng)[:6]
counts = collections.defaultdict(int)
code_lines = set()
branches = {}
for k, cfg in enumerate(cfgs):
    d = '/var/tmp/cov/c%d' % k
    os.makedirs(d, exist_ok=True)
    open(d + '/h.cpp', 'w').write(G.source(cfg).replace('std::_Exit(0);', 'std::exit(0);'))
    r = subprocess.run(['g++', '-std=c++11', '-O0', '--coverage', '-ftemplate-depth=2000', '-I/repo/include', 'h.cpp', '-o', 'h'], cwd=d, capture_output=True, text=True)
    if r.returncode != 0:
        print('build failed', cfg.cfg_line()[:80], r.stderr[-300:]); continue
    cases = []
    for prop in ('C01', 'C05', 'C08', 'C09', 'C10', 'C11', 'C12', 'C16', 'C17'):
        cases += [MM.gen_case(rng, cfg, 'r%d' % j, rng.randint(8, 24), P.BIAS.get(prop)) for j in range(40)]
    if cfg.plans:
        cases += [MM.plan_veto_case(rng, cfg, 'pv%d' % j) for j in range(30)] + [MM.reactivation_case(rng, cfg, 'ra%d' % j) for j in range(30)] + [MM.statusfirst_case(rng, cfg, 'sf%d' % j) for j in range(30)]
    cases += [MM.pingpong_case(rng, cfg, 'pp%d' % j) for j in range(20)] + [MM.replica_case(rng, cfg, 'rep%d' % j, 12) for j in range(30)]
    inp = '\n'.join(l for c in cases for l in c) + '\n'
    subprocess.run(['./h'], cwd=d, input=inp, capture_output=True, text=True, timeout=600)
    subprocess.run(['gcov', '-b', '-c', '-r', '-s', '/repo/include', 'h.cpp'], cwd=d, capture_output=True, text=True)
    # find machine.hpp.gcov
    for f in os.listdir(d):
        if f.endswith('machine.hpp.gcov'):
            cur_ln = None
            for line in open(os.path.join(d, f), errors='replace'):
                mb = re.match(r'branch\s+(\d+)\s+(taken (\d+)|never executed)', line)
                if mb and cur_ln is not None:
                    key = (cur_ln, int(mb.group(1)))
                    branches[key] = branches.get(key, 0) + (int(mb.group(3)) if mb.group(3) else 0)
                    continue
                m = re.match(r'\s*([^:]+):\s*(\d+):', line)
                if not m: continue
                cur_ln = int(m.group(2))
                c, ln = m.group(1).strip(), int(m.group(2))
                if c == '-': continue
                code_lines.add(ln)
                if c not in ('#####', '=====') :
                    try: counts[ln] += int(c.rstrip('*'))
                    except ValueError: pass
src = open('/repo/include/ffsm2/machine.hpp').read().split('\n')
un = sorted(l for l in code_lines if counts[l] == 0)
import shutil
for k in range(len(cfgs)): shutil.rmtree('/var/tmp/cov/c%d' % k, ignore_errors=True)
print('code lines seen', len(code_lines), 'never executed', len(un))
bl = sorted({l for (l, b), c in branches.items() if c == 0 and counts[l] > 0})
print('branches', len(branches), 'never taken', sum(1 for c in branches.values() if c == 0), 'on', len(bl), 'executed lines')
for l in bl:
    print('B', l, [b for (l2, b), c in sorted(branches.items()) if l2 == l and c == 0], src[l-1].strip()[:140])
for l in un:
    print(l, src[l-1].strip()[:150])
