#!/bin/bash
# NOTE: patches /repo in place and reverts it afterwards — never run while a `vp run` background job is active.
cd /verif
for n in 7 8 9 10 11 12 1 2 3 4 5 6; do
  d=seeded/neutral-N$n
  if ! git -C /repo apply /verif/$d/patch.diff 2>/dev/null; then echo "N$n: PATCH-DOES-NOT-APPLY"; continue; fi
  echo "=== N$n suite: $(REPO=/repo bash /verif/tools/baseline.sh 2>&1 | grep -E 'test cases' | tr -s ' ')"
  alarms=0
  for p in C01 C02 C03 C04 C05 C06 C07 C08 C09 C10 C11 C12 C13 C14 C15 C16 C17 C18 C19 C20; do
    r=$(python3 check.py $p --tier quick 2>&1 | grep -E "VIOLATION|exit=")
    if ! echo "$r" | grep -q "exit=0"; then alarms=$((alarms+1)); echo "N$n ALARM $p: $(echo "$r" | grep VIOLATION | head -2 | tr '\n' ' ')"; fi
  done
  echo "N$n alarms=$alarms"
  git -C /repo checkout -- .
done
git -C /repo status --short | grep -v _build
echo ALLDONE
