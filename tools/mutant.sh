#!/bin/bash
# NOTE: patches /repo in place and reverts it afterwards — never run while a `vp run` background job is active.
# usage: mut.sh "<sed expr on include/ffsm2/machine.hpp>" props...
expr="$1"; shift
cd /repo && sed -i "$expr" include/ffsm2/machine.hpp && git diff --stat | tail -1
cd /verif
for p in "$@"; do python3 check.py $p 2>&1 | grep -E "VIOLATION|exit=" | cut -c1-260; done
git -C /repo checkout -- . ; git -C /repo status --short | grep -v _build
